#!/usr/bin/env python3
"""Print the prompt given to a fresh sub-agent that is asked to break one property."""
import json, sys
pid = sys.argv[1]
rec = None
for l in open('/verif/properties.jsonl'):
    p = json.loads(l)
    if p['id'] == pid:
        rec = p
assert rec
name = sys.argv[2] if len(sys.argv) > 2 else pid
avoid = sys.argv[3] if len(sys.argv) > 3 else ""
wt = f"/tmp/wt/{name}"
out = f"/tmp/seed_out/{name}"
print(f"""You are helping to evaluate a verification effort for rust-lang/chalk (a Rust trait-system solver). Your job: craft ONE realistic, subtle code change to chalk that BREAKS the semantic property below, while the code still compiles and the whole existing test suite still passes.

## The property (id {pid})
Title: {rec['title']}
Statement: {rec['statement']}
Quantified over: {rec['quantifier']['text']}
Why the existing tests cannot settle it: {rec['why_tests_cant']}
Code it is anchored in: {', '.join(rec['anchors']['files'])}
Mechanisms meant to make it hold: {json.dumps(rec['anchors'].get('mechanism', []))}

## Your workspace
- Work ONLY inside your own scratch git worktree of the chalk repository: {wt} (it is a worktree of /repo at its pinned commit). Never modify /repo itself, and do not read or touch /verif (it is out of bounds for you).
- The sandbox has NO network. Build offline: `cd {wt} && cargo test --workspace --no-fail-fast --offline` runs the existing suite (550 tests, all pass on the unchanged tree). To avoid recompiling third-party dependencies you may first `cp -r /repo/target {wt}/target`.
- Write your deliverables to {out}/ :
  1. `patch.diff` — the change, as `git -C {wt} diff` output against the pinned commit (source changes to the chalk crates only; it must NOT include your demonstration test).
  2. a demonstration — either a Rust test file (say where it must be placed and how to run it, e.g. a new file under {wt}/tests/ registered in tests/lib.rs, or a small standalone program / `#[test]` added to an existing test module) that FAILS with your change applied and PASSES on the unchanged tree. Save it as `{out}/demo.rs` (plus `{out}/demo_install.sh`, a small shell script that, given the path of a chalk checkout as $1, installs the demo into that checkout, and `{out}/demo_run.sh` that, given the checkout path as $1, runs it and exits non-zero on failure).
  3. `meta.json` — {{"property": "{pid}", "summary": "...what the change does...", "needs_to_manifest": "...the specific interleaving / crash point / multi-step sequence / unusual input / pair of cooperating sites needed...", "commands_run": ["..."], "baseline_tests_pass_with_patch": true/false}}

## Requirements for the change
- It must compile, and the ENTIRE existing suite (`cargo test --workspace --no-fail-fast --offline`) must still pass with the change applied — verify this yourself and record it.
- It must look like a plausible mistake or "optimization" a maintainer could make (a dropped case, an off-by-one, a reordered statement, a cache or fast path that is slightly too eager, a missing rollback, a check moved past an early return ...), not sabotage such as `if input == magic {{ return wrong }}`.
- It must need something SPECIFIC to manifest: a particular interleaving or history of calls, a crash/fault at a particular point, a multi-step sequence of operations, an unusual input shape, or two cooperating sites that each look fine alone. A change that ordinary use would expose at once (or that any of the existing tests catch) is not what we want.
- Keep it small (typically 1-15 changed lines in 1-2 files).
- The demonstration must really exercise the property as stated (through chalk's public API or test macros), fail with the patch and pass without it. Confirm both yourself.

{("- Somebody else already produced this change for the same property; yours must be a DIFFERENT one (different site / different mechanism): " + avoid) if avoid else ""}

When finished, make sure `git -C {wt} diff` still shows exactly your source change (the demo may be present too, but patch.diff must contain only the source change), and reply with a short summary: files changed, what is needed to manifest, and the exact commands you ran with their outcomes.""")
