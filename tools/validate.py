#!/opt/veriftools/pyvenv/bin/python
"""Validate MANIFEST.json and all evidence files against the schemas (developer tool)."""
import json, glob, jsonschema
jsonschema.validate(json.load(open('/verif/MANIFEST.json')), json.load(open('/root/.vp/MANIFEST.schema.json'))); print('manifest valid')
es = json.load(open('/root/.vp/EVIDENCE.schema.json'))
for f in sorted(glob.glob('/verif/evidence/*.json')):
    jsonschema.validate(json.load(open(f)), es); print('valid', f)
