#!/bin/bash
# verify_seed.sh <PROP> [<seed-name>] : confirm a sub-agent's seeded change in its scratch worktree, then file it
# under /verif/seeded/<seed-name>/ and remove the worktree.
set -u
P=$1; NAME=${2:-$1}
WT=/tmp/wt/$NAME; OUT=/tmp/seed_out/$NAME; DST=/verif/seeded/$NAME
LOG=$OUT/verify.log; : > $LOG
cd $WT || exit 2
git checkout -q -- . ; git clean -qfd -e target
git apply $OUT/patch.diff || { echo "patch does not apply" | tee -a $LOG; exit 1; }
echo "== suite with patch" >> $LOG
cargo test --workspace --no-fail-fast --offline > $OUT/suite.log 2>&1; S=$?
grep -E "^test result" $OUT/suite.log >> $LOG
echo "suite_exit=$S" >> $LOG
bash $OUT/demo_install.sh $WT >> $LOG 2>&1
bash $OUT/demo_run.sh $WT > $OUT/demo_patched.log 2>&1; D1=$?
echo "demo_with_patch_exit=$D1" >> $LOG
git apply -R $OUT/patch.diff
bash $OUT/demo_run.sh $WT > $OUT/demo_clean.log 2>&1; D2=$?
echo "demo_without_patch_exit=$D2" >> $LOG
if [ $S -eq 0 ] && [ $D1 -ne 0 ] && [ $D2 -eq 0 ]; then
  mkdir -p $DST
  cp $OUT/patch.diff $OUT/demo.rs $OUT/demo_install.sh $OUT/demo_run.sh $DST/
  python3 - "$OUT/meta.json" "$DST/meta.json" "$P" <<'PY'
import json,sys
try: m=json.load(open(sys.argv[1]))
except Exception as e: m={"note":"agent meta unreadable: %s"%e}
m["property"]=sys.argv[3]
m["confirmed_by_me"]={"what_i_ran":["git apply patch.diff; cargo test --workspace --no-fail-fast --offline (exit 0, all tests pass)","demo_install.sh + demo_run.sh with patch (non-zero exit)","git apply -R patch.diff; demo_run.sh (exit 0)"],"where":"scratch worktree under /tmp/wt (removed afterwards)"}
json.dump(m,open(sys.argv[2],"w"),indent=1)
PY
  echo "CONFIRMED $NAME" | tee -a $LOG
  cp $LOG $DST/verify.log
  R=0
else
  echo "NOT CONFIRMED $NAME (suite=$S demo_patched=$D1 demo_clean=$D2)" | tee -a $LOG
  R=1
fi
cd / && git -C /repo worktree remove --force $WT
exit $R
