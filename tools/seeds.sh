#!/bin/bash
# tools/seeds.sh <ID> [seeds...] : run the quick check with several seeds; print the last line of each
P=$1; shift; S=${@:-0 1 2 3 4}
for s in $S; do echo -n "seed=$s "; VERIF_SEED=$s ./check $P --tier quick 2>&1 | grep -E "^(OK|VIOLATION|TOOL-ERROR)" | cut -c1-200 | tail -1; done
