#!/usr/bin/env python3
"""Re-run the failing inputs of a replay file written by ./check against /repo's working tree.
Usage: python3 tools/replay.py /verif/replay/<file>.json"""
import sys, os, json
ROOT = os.path.dirname(os.path.dirname(os.path.abspath(__file__)))
sys.path.insert(0, os.path.join(ROOT, "lib"))
import harness
ok, log = harness.build()
if not ok: print(log[-2000:]); sys.exit(2)
d = json.load(open(sys.argv[1]))
for i, v in enumerate(d["violations"]):
    rp = v["replay"]
    print("== violation", i, json.dumps(v["signature"]))
    if "program" not in rp:
        print("   (specification-level counterexample)\n", rp.get("tlc_tail", "")[-2500:]); continue
    job = {"id": i, "program": rp["program"], "solver": rp["solver"], "trace": False, "ops": rp["ops"]}
    o = harness.run("solve", [job], par=1, timeout=60)[0]
    print("   program:", rp["program"]); print("   ops:", rp["ops"])
    if "expected" in rp: print("   specification:", [(x["goal"], x["class"], x.get("truth")) for x in rp["expected"]])
    print("   observed now:", o.get("error") or [(y.get("class"), y.get("text")) for y in o["results"]])
