#!/usr/bin/env python3
"""Writes /verif/MANIFEST.json (run by hand when checks are added; not used at check time)."""
import json, os
ROOT = os.path.dirname(os.path.dirname(os.path.abspath(__file__)))
props = [json.loads(l) for l in open(os.path.join(ROOT, "properties.jsonl"))]
GROUND_NOTE = ("Trusted: TLC; the renderer of abstract programs to .chalk text; the declarative meaning (lfp/gfp per SCC, stratified negation) written in SLGGround.tla. "
               "Bounds: propositional programs (closed goals only produce closed subgoals) over <= 4 atoms, <= 3 clauses, bodies <= 2; the recursive solver is bound "
               "through final answers only (no engine model of chalk-recursive yet).")
claimed = {
 "C02": ("6/C02", "SLGGround.tla is a closed, deterministic TLA+ model of chalk-engine's root search on propositional programs that is in lock-step with the real engine (same number of engine events per public call). TLC explores every (program, closed goal) of a bounded family incl. stratified negation and coinduction and checks ResultsCorrect (answer is Unique/None exactly as the program's least/greatest fixed point dictates). Every explored behaviour is replayed on the real SLG solver (answer and step count), on the recursive solver with cache on/off and under a second limit configuration; every real SLG execution is validated as a behaviour of SLG.tla (control-level spec of logic.rs/forest.rs/aggregate.rs) with its invariants evaluated at every step."),
 "C05": ("6/C05", "Same engine model over the family with every choice of #[coinductive] traits and histories of two goals: invariant ResultsCorrect against the greatest-fixed-point meaning, DeviationShape bounding the one named deviation; replay on SLG and recursive (cache on/off); the members expressible as one auto trait over recursive structs with negative impls are rendered that way and replayed too. The check re-derives a genuine defect (stale delayed-subgoal answers) and reports it as KNOWN-FINDING."),
 "C09": ("6/C09", "Invariant BoundedWork (each public call of the engine model ends within MaxEvents steps) over programs x {solve, solve_limited}; the real SLG engine performs exactly the number of steps the model computes, the recursive solver returns under a watchdog, nothing panics; plus the (program, goal) blocks of /repo/tests under both solvers with watchdog, SLG executions validated against SLG.tla up to OpEnd. Known non-terminating / panicking inputs (negative cycles, coinductive_wrapper) are listed findings."),
 "C10": ("6/C10", "TLC enumerates every history (order, repetition) of up to 3 goals on one forest for each program; ResultsCorrect says each answer equals the program's meaning, i.e. the fresh answer. Replay on real SLG (answer + step count per call, so cached tables are exercised exactly as modelled), recursive with cache on and off. Re-derives two genuine history-dependence defects of the SLG engine as KNOWN-FINDINGs."),
 "C11": ("6/C11", "TLC enumerates histories of solve / solve_limited with the continue-callback returning false at its k-th consultation (the Stop action of SLG.tla); invariants InterruptSafe and ResultsCorrect; replay on real SLG compares answer, step count and number of callback consultations, recursive solver compared with the meaning."),
 "C13": ("6/C13", "All permutations of a clause multiset are members of the (sequence-based) family; ResultsCorrect against the order-independent meaning for each order; replay on real SLG/recursive in the modelled order (lock-step) and with all items shuffled at the text level."),
}
extra = json.load(open(os.path.join(ROOT, "tools", "extra_claims.json"))) if os.path.exists(os.path.join(ROOT, "tools", "extra_claims.json")) else {}
checks = []
for pid, (ref, text) in claimed.items():
    checks.append({"property_id": pid, "quick_cmd": "./check %s --tier quick" % pid, "thorough_cmd": "./check %s --tier thorough" % pid,
                   "evidence_file": "/verif/evidence/%s.json" % pid, "engine": "ground-slg",
                   "replay_cmd_template": "python3 tools/replay.py {path}",
                   "level_claimed": {"category": "model_checking", "text": text, "design_ref": "DESIGN.md section 0 and " + ref},
                   "level_note": GROUND_NOTE, "technique": "TLA+ engine model + TLC; spec->impl replay with step-count lock-step; impl->spec trace validation"})
na_reason = ("not claimed in this round: the specification module and conformance harness planned for it in DESIGN.md section 6 are not built yet; "
             "no check is registered rather than registering one that is not sound")
na = [{"property_id": p["id"], "reason": na_reason} for p in props if p["id"] not in claimed]
m = {"version": 1, "setup_cmd": "./setup.sh",
     "hooks": {"guard": "chalk_verif",
               "enable": "rustflags --cfg chalk_verif in /verif/harness/.cargo/config.toml (the harness crate has path dependencies on /repo's crates)",
               "baseline_off_cmd": "cd /repo && cargo test --workspace --no-fail-fast --offline",
               "source_commits": ["2eaca45"], "add_only": True},
     "engines": [{"name": "ground-slg", "path": "/verif/spec/SLG.tla, SLGGround.tla, SLGGroundMC.tla, SLGTrace.tla; /verif/lib/groundcheck.py; /verif/harness",
                  "serves_properties": sorted(claimed), "kind_free_text": "TLA+ model of chalk-engine (control level + closed propositional level), TLC model checking, replay into real solvers, trace validation of real executions"}],
     "checks": checks,
     "notes": "See DESIGN.md section 0 for what is built. known-findings.json lists genuine defects re-derived on every run.",
     "not_applicable": na}
json.dump(m, open(os.path.join(ROOT, "MANIFEST.json"), "w"), indent=1)
print(len(checks), "checks,", len(na), "not claimed")
