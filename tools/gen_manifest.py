#!/usr/bin/env python3
"""Writes /verif/MANIFEST.json (run by hand when checks are added; not used at check time)."""
import json, os
ROOT = os.path.dirname(os.path.dirname(os.path.abspath(__file__)))
props = [json.loads(l) for l in open(os.path.join(ROOT, "properties.jsonl"))]
import sys
sys.path.insert(0, os.path.join(ROOT, "tools"))
from claims import CLAIMS, ENGINES, NA, NA_DEFAULT
checks = []
for pid in sorted(CLAIMS):
    c = CLAIMS[pid]
    checks.append({"property_id": pid, "quick_cmd": "./check %s --tier quick" % pid, "thorough_cmd": "./check %s --tier thorough" % pid,
                   "evidence_file": "/verif/evidence/%s.json" % pid, "engine": c["engine"],
                   "replay_cmd_template": "python3 tools/replay.py {path}",
                   "level_claimed": {"category": c["level"], "text": c["text"], "design_ref": c["ref"]},
                   "level_note": c["note"], "technique": c["technique"]})
na = [{"property_id": p["id"], "reason": NA.get(p["id"], NA_DEFAULT)} for p in props if p["id"] not in CLAIMS]
import subprocess
commits = subprocess.run(["git", "-C", "/repo", "log", "--format=%h %s"], stdout=subprocess.PIPE, text=True).stdout.splitlines()
hook_commits = [l.split()[0] for l in commits if l.split(" ", 1)[1].startswith("verif hooks")][::-1]
m = {"version": 1, "setup_cmd": "./setup.sh",
     "hooks": {"guard": "chalk_verif",
               "enable": "rustflags --cfg chalk_verif in /verif/harness/.cargo/config.toml (the harness crate has path dependencies on /repo's crates)",
               "baseline_off_cmd": "cd /repo && cargo test --workspace --no-fail-fast --offline",
               "source_commits": hook_commits, "add_only": True},
     "engines": [{"name": n, "path": p, "serves_properties": sorted(k for k in CLAIMS if CLAIMS[k]["engine"] == n), "kind_free_text": t}
                 for n, (p, t) in ENGINES.items()],
     "checks": checks,
     "notes": "See DESIGN.md section 0 for what is built. known-findings.json lists genuine defects re-derived on every run.",
     "not_applicable": na}
json.dump(m, open(os.path.join(ROOT, "MANIFEST.json"), "w"), indent=1)
print(len(checks), "checks,", len(na), "not claimed")
