"""Claims registered in MANIFEST.json: one entry per property that has a check (used by gen_manifest.py)."""
GROUND_NOTE = ("Trusted: TLC; the renderer of abstract programs to .chalk text; the declarative meaning (lfp/gfp per SCC, stratified negation) written in SLGGround.tla. "
               "Bounds: propositional programs (closed goals only produce closed subgoals) over <= 4 atoms, <= 3 clauses, bodies <= 2; the recursive solver is bound "
               "through final answers only (no engine model of chalk-recursive yet).")

GROUND_TECH = "TLA+ engine model + TLC; spec->impl replay with step-count lock-step; impl->spec trace validation"
claimed = {
 "C02": ("6/C02", "SLGGround.tla is a closed, deterministic TLA+ model of chalk-engine's root search on propositional programs that is in lock-step with the real engine (same number of engine events per public call). TLC explores every (program, closed goal) of a bounded family incl. stratified negation and coinduction and checks ResultsCorrect (answer is Unique/None exactly as the program's least/greatest fixed point dictates). Every explored behaviour is replayed on the real SLG solver (answer and step count), on the recursive solver with cache on/off and under a second limit configuration; every real SLG execution is validated as a behaviour of SLG.tla (control-level spec of logic.rs/forest.rs/aggregate.rs) with its invariants evaluated at every step."),
 "C05": ("6/C05", "Same engine model over the family with every choice of #[coinductive] traits and histories of two goals: invariant ResultsCorrect against the greatest-fixed-point meaning, DeviationShape bounding the one named deviation; replay on SLG and recursive (cache on/off); the members expressible as one auto trait over recursive structs with negative impls are rendered that way and replayed too. The check re-derives a genuine defect (stale delayed-subgoal answers) and reports it as KNOWN-FINDING."),
 "C09": ("6/C09", "Invariant BoundedWork (each public call of the engine model ends within MaxEvents steps) over programs x {solve, solve_limited}; the real SLG engine performs exactly the number of steps the model computes, the recursive solver returns under a watchdog, nothing panics; plus the (program, goal) blocks of /repo/tests under both solvers with watchdog, SLG executions validated against SLG.tla up to OpEnd. Known non-terminating / panicking inputs (negative cycles, coinductive_wrapper) are listed findings."),
 "C10": ("6/C10", "TLC enumerates every history (order, repetition) of up to 3 goals on one forest for each program; ResultsCorrect says each answer equals the program's meaning, i.e. the fresh answer. Replay on real SLG (answer + step count per call, so cached tables are exercised exactly as modelled), recursive with cache on and off. Re-derives two genuine history-dependence defects of the SLG engine as KNOWN-FINDINGs."),
 "C11": ("6/C11", "TLC enumerates histories of solve / solve_limited with the continue-callback returning false at its k-th consultation (the Stop action of SLG.tla); invariants InterruptSafe and ResultsCorrect; replay on real SLG compares answer, step count and number of callback consultations, recursive solver compared with the meaning."),
 "C13": ("6/C13", "All permutations of a clause multiset are members of the (sequence-based) family; ResultsCorrect against the order-independent meaning for each order; replay on real SLG/recursive in the modelled order (lock-step) and with all items shuffled at the text level."),
}

# pid -> dict(engine, ref, text, note, technique, level)
CLAIMS = {pid: {"engine": "ground-slg", "ref": "DESIGN.md section 0 and " + ref, "text": text, "note": GROUND_NOTE,
                "technique": GROUND_TECH, "level": "model_checking"} for pid, (ref, text) in claimed.items()}

ENGINES = {
 "ground-slg": ("/verif/spec/SLG.tla, SLGGround.tla, SLGGroundMC.tla, SLGTrace.tla; /verif/lib/groundcheck.py; /verif/harness",
                "TLA+ model of chalk-engine (control level + closed propositional level), TLC model checking, replay into real solvers, trace validation of real executions"),
 "inplace": ("/verif/spec/InPlace.tla, InPlaceMC.tla, InPlaceTrace.tla; /verif/lib/props_mem.py; /verif/harness/src/inplace.rs",
             "TLA+ state machine of fold/in_place.rs (slots, drop counters, buffer ownership), TLC over all inputs, replay on the real functions with drop-recording elements, trace validation"),
}

CLAIMS["C27"] = {"engine": "inplace", "ref": "DESIGN.md section 0.8 and 6/C27", "level": "model_checking",
 "text": "InPlace.tla specifies fallible_map_vec, the VecMappedInPlace drop guard and fallible_map_box statement by statement over abstract slots (T / U / moved-out / dead), per-element drop counters and buffer ownership. TLC enumerates every input (vec/box, length, failure position, Err/panic, identical layout / different layout / ZST) and checks in every state: no read or drop of a slot without a live value, no element dropped twice, buffer freed at most once, on failure every element dropped exactly once and the buffer freed once, on success nothing dropped until the caller drops the result. Every behaviour is replayed on the real functions (cfg re-export, and through TypeFoldable for Vec<T>/Box<T>) with drop-recording elements and a quarantining allocator that counts frees of the buffer; the observed drop log must equal the specification's log and is validated by TLC as a behaviour of InPlace.tla.",
 "note": "Trusted: TLC, the harness's drop-recording element types and its watching allocator. Not observable: a read of freed/uninitialised memory that neither changes a drop log nor crashes. Bounds: lengths <= 4 (quick) / 6 (thorough).",
 "technique": "TLA+ state machine + TLC (exhaustive inputs); spec->impl replay of every behaviour; impl->spec trace validation of drop logs"}

ENGINES["coherence"] = ("/verif/spec/Coherence.tla, CoherenceMC.tla, Orphan.tla, OrphanMC.tla; /verif/lib/props_coh.py; /verif/harness/src/lowerq.rs",
                        "TLA+ specifications of the coherence algorithm (pair loop, specialization forest, priorities) with the meaning of impl headers, and of the orphan rule vs. its clause encoding; TLC exhaustive; verdict/priorities replayed on the real queries")
TABLE_NOTE = "Trusted: TLC, the renderer from abstract programs to .chalk text, the meaning written in the specification. "
CLAIMS["C19"] = {"engine": "coherence", "ref": "DESIGN.md section 0.8 and 6/C19", "level": "model_checking",
 "text": "Coherence.tla specifies visit_specializations_of_trait (pair loop in id order, skip of negative pairs, marker traits, the disjoint and specializes queries incl. the `compatible` modality), build_specialization_forest and set_priorities as a state machine, next to the meaning of impl headers (set of concrete types an impl applies to). TLC explores every program with <= 3 impls (672 k states) and checks Total (no panic state), EqualPrioDisjoint and SubsetHigher. A seed-chosen set of programs with <= 4 impls plus fixed chains/diamond-like cases is rendered and the real coherence() under both solvers must return the specified verdict and exactly the specified priorities.",
 "note": TABLE_NOTE + "Bounds: one trait, headers V^d<T|A|B> (d <= 2), where-clause T: Bar, positive/negative, marker; all items local.",
 "technique": "TLA+ algorithm+meaning specification, TLC exhaustive; spec->impl replay of verdict and priorities"}
CLAIMS["C20"] = {"engine": "coherence", "ref": "DESIGN.md section 0.8 and 6/C20", "level": "model_checking",
 "text": "Orphan.tla states the orphan rule (OrphanOK) and, separately, chalk's clause encoding (LocalImplAllowed :- IsFullyVisible(prefix), IsLocal(Pi); IsLocal / IsFullyVisible per type constructor as generated by AdtDatum and match_ty). TLC checks that they agree on all 159 014 impl headers with 3 type arguments over 43 argument shapes, and prints the verdict table; a residue class of it (all 1- and 2-argument headers in the thorough tier) is replayed on the real orphan_check() under both solvers.",
 "note": TABLE_NOTE + "Bounds: up to 3 type arguments; local / upstream / generic / fundamental-upstream structs (nested), u32, pairs, one impl parameter.",
 "technique": "TLA+ rule-vs-encoding specification, TLC exhaustive; spec->impl replay of the verdict table"}

CLAIMS["C12"] = {"engine": "ground-slg", "ref": "DESIGN.md section 0.8 and 6/C12", "level": "fault_enumeration",
 "text": "Crash-point enumeration on the engine model: SLG.tla has a Panic action enabled wherever a database callback can run (the strand ensure_root_answer holds in a local is recorded as lost) followed by DropState; TLC explores, for every program of the propositional family, every root goal and every engine event index k, the history <<solve whose callback panics instead of event k, solve>> (thorough: <<solve, panic, solve>>) and checks ResultsCorrectUnlessLost. The real SLG engine is driven with a panic injected into the database callbacks that precede event k: the call must report the panic, later calls must return the specified answer in exactly the specified number of engine steps, and the executions (with Panic/DropState) are validated against SLG.tla. The recursive solver (cache on/off) gets the panic at every callback and its later answers are compared with the program's meaning. Re-derives the genuine SLG defect (strand lost while held) as KNOWN-FINDING; the recursive solver's defect was repaired (fix: 8fb68be).",
 "note": GROUND_NOTE + " One injected panic per history.", "technique": "TLA+ engine model with Panic action + TLC; crash-point replay on the real solvers (step-count lock-step); trace validation"}

ENGINES["terms"] = ("/verif/spec/Terms.tla, TermsMC.tla, Unify.tla, CouldMatchMC.tla; /verif/lib/props_terms.py; /verif/harness/src/terms.rs, termops.rs",
                    "TLA+ term language of chalk-ir (types, lifetimes, constants, binders) with occurrence flags, de Bruijn operators and their laws, declarative unification; TLC over bounded universes; every term / pair replayed on chalk-ir")
TERMS_NOTE = "Trusted: TLC, the term builder/projection harness/src/terms.rs, the definitions in Terms.tla / Unify.tla. Bounds: two levels of nesting over every atom kind (see the universes in TermsMC.tla / CouldMatchMC.tla)."
CLAIMS["C25"] = {"engine": "terms", "ref": "DESIGN.md section 0.8 and 6/C25", "level": "model_checking",
 "text": "Terms.tla defines ShiftIn, ShiftOut and Subst over de Bruijn terms with fn-pointer and dyn binders (as the folders implement them, incl. that the type of a constant variable is not folded); TLC checks the laws ShiftRoundTrip, SubstIdentity, SubstOfShifted, SubstCommutesShift on all 2 540 terms of the universe x parameter lists. For every term the real shifted_in, shifted_out, Subst::apply and a no-op fold must return exactly what the specification's operators return (21 902 operations), which transfers the laws to the implementation on that universe.",
 "note": TERMS_NOTE + " Types only (no goals / program clauses).", "technique": "TLA+ operators + laws checked by TLC; spec->impl replay of every operation"}
CLAIMS["C26"] = {"engine": "terms", "ref": "DESIGN.md section 0.8 and 6/C26", "level": "model_checking",
 "text": "Flags(t) is defined in Terms.tla by occurrence of subterms (independent of how compute_flags recurses); TLC enumerates 6 018 types (every constructor over every kind of type / lifetime / constant atom, constants with non-trivial types, all where-clause kinds in dyn bounds, two levels) and the real TyData::flags of each must equal the specification's set, STILL_FURTHER_SPECIALIZABLE excluded.",
 "note": TERMS_NOTE, "technique": "TLA+ occurrence semantics, TLC exhaustive universe; spec->impl replay of every term"}
CLAIMS["C18"] = {"engine": "terms", "ref": "DESIGN.md section 0.8 and 6/C18", "level": "model_checking",
 "text": "Unify.tla is a declarative first-order unification (kinds of unknowns, occurs check, universes, repeated variables; lifetimes/aliases never fail) and CouldMatchAlg mirrors could_match.rs; TLC checks FilterSound on all 87 025 pairs of a 295-type universe and ListSound on 20 736 pairs of argument lists; the real could_match is evaluated on every pair and must accept every unifiable one.",
 "note": TERMS_NOTE, "technique": "TLA+ declarative unification vs filter model, TLC exhaustive pairs; spec->impl replay of every pair"}

# properties without a check: reason (default below)
NA_DEFAULT = ("not claimed yet: the specification module and conformance harness planned for it in DESIGN.md section 6 are not built; "
              "no check is registered rather than registering one that is not sound")
NA = {}
