"""C11 at the first-order level: goals with unknowns (several answers, guidance) interrupted at the k-th consultation of the callback.
ApproxMC.tla defines which results an interrupted solve may return for a given full answer (Approx: equal, or ambiguous and claiming
nothing the full answer does not imply) and TLC prints the table; the real solvers are judged with it, and the solve that follows on
the same solver must answer like a fresh one."""
import json, random
import harness, groundcheck as gc
import props_order as po
from props_mem import run_tlc_mc
from common import seed, ToolError

CFG = "SPECIFICATION Spec\nINVARIANTS Sound Reflexive Transitive Bottom NeverStronger Replay\nCHECK_DEADLOCK FALSE\n"

def approx_table(run):
    r = run_tlc_mc(run, "ApproxMC", CFG, "C11approx", timeout=600, workers=2, xmx="2g")
    if r is None: return None
    tab = {}
    for x in gc.parse_replay(r): tab[(x["r"]["kind"], x["r"]["s"], x["f"]["kind"], x["f"]["s"])] = x["ok"]
    if len(tab) != 121: raise ToolError("ApproxMC: %d table entries" % len(tab))
    return tab

def kind_of(r):
    c = r.get("class")
    return c if c in ("Unique", "None", "Definite", "Suggested", "Unknown") else None

def abstract(r, f):
    """(r.kind, r.s, f.kind, f.s): the full answer's substitution is g1; the interrupted one's is g1 if equal, g0 if the full one is an
    instance of it, h otherwise"""
    import props_mini as pm
    rk, fk = kind_of(r), kind_of(f)
    fs = "g1" if fk in ("Unique", "Definite", "Suggested") else "-"
    rs = "-"
    if rk in ("Unique", "Definite", "Suggested"):
        ps, pf = (r.get("detail") or {}).get("subst"), (f.get("detail") or {}).get("subst")
        if fs == "-" or ps is None or pf is None: rs = "g1"
        elif r.get("text", "").split(";", 1)[-1] == f.get("text", "").split(";", 1)[-1] or json.dumps(pm.mask_lts(ps)) == json.dumps(pm.mask_lts(pf)): rs = "g1"
        else:
            env = {}
            rs = "g0" if len(ps) == len(pf) and all(pm.matches(u, v, env) for u, v in zip(pf, ps)) else "h"
    return (rk, rs, fk, fs)

def interrupt_first_order(run, tier):
    import props_mini as pm
    tab = approx_table(run)
    if tab is None: return
    rnd = random.Random(seed() * 17 + 11)
    n = 70 if tier == "quick" else 300
    K = 5 if tier == "quick" else 6
    progs, impl = [], []
    for i in range(n):
        p = po.sample_program(rnd, i, finite_share=0.5); impl.append(p)
        progs.append((po.render(p, list(range(len(p["impls"]))), False, False), po.OPEN_GOALS[:len(po.OPEN_CONJ)], i))
        cyc = getattr(interrupt_first_order, "_cyc", {}); cyc[i] = po.cyclic(p["impls"]); interrupt_first_order._cyc = cyc
    for p in pm.sample_programs(n // 2, rnd, False):
        if pm.co_generic(p): continue
        progs.append((pm.render_mini(p), [pm.GOALS[i - 1] for i in pm.OPEN_GOALS], None))
    # the solution sets of the ImplMC goals: an interrupted answer whose definite guidance is stronger than the full answer's is still admissible
    # if every solution satisfies it (the full answer may be weaker than necessary; it is the truth that must not be contradicted)
    recs = po.implmc_records(run, impl, "C11impl")
    if recs is None: return
    nint = 0
    for solver in (gc.SLG, gc.REC):               # (cache off: exponential on these programs even without interruption)
        sname = gc.solver_name(solver)
        jobs = []
        for i, (text, goals, pid) in enumerate(progs):
            jobs.append({"id": len(jobs), "program": text, "solver": solver, "detail": True, "ops": [{"op": "solve", "goal": g, "fresh": True} for g in goals]})
            for k in range(1, K + 1):
                ops = []
                for g in goals:
                    ops.append({"op": "limited", "goal": g, "fresh": True, "stop_at": k})
                    ops.append({"op": "solve", "goal": g})
                jobs.append({"id": len(jobs), "program": text, "solver": solver, "detail": True, "ops": ops})
        obs = harness.run("solve", jobs, timeout=300)
        it = iter(zip(jobs, obs))
        for i, (text, goals, pid) in enumerate(progs):
            job0, full = next(it)
            runs = [next(it) for _ in range(K)]
            base = {"solver": sname, "src": "first-order"}
            if full.get("error"):
                if str(full["error"]).startswith("lowering"): raise ToolError("program does not lower: %s: %s" % (text, full["error"]))
                run.case([text, sname]); run.violation(dict(base, what="abort-or-hang", rec_cyclic=(sname != "slg" and pid is not None and interrupt_first_order._cyc.get(pid, False))), {"program": text, "solver": solver, "observed": full}); continue
            for k, (job, o) in enumerate(runs, 1):
                if o.get("error"):
                    run.case([text, k, sname]); run.violation(dict(base, what="abort-or-hang", op="limited", rec_cyclic=(sname != "slg" and pid is not None and interrupt_first_order._cyc.get(pid, False))), {"program": text, "solver": solver, "stop_at": k, "observed": o}); continue
                for gi, g in enumerate(goals):
                    f, r, after = full["results"][gi], o["results"][2 * gi], o["results"][2 * gi + 1]
                    interrupted = r.get("cb", 0) >= k
                    run.case([text, g, k, sname], nontrivial=interrupted)
                    rp = {"program": text, "goal": g, "solver": solver, "stop_at": k, "full": f, "interrupted": r, "after": after}
                    if "Panic" in (f.get("class"), r.get("class"), after.get("class")):
                        if f.get("class") == "Panic": continue                 # judged by C09 / C01
                        run.violation(dict(base, what="panic", op="limited" if r.get("class") == "Panic" else "solve", text=str((r if r.get("class") == "Panic" else after).get("text"))[:60]), rp); continue
                    key = abstract(r, f)
                    if None in key: continue
                    if interrupted: nint += 1
                    ok = tab[key]
                    if not ok and key[0] == "Definite" and key[2] in ("Definite", "Suggested", "Unknown") and pid is not None:
                        pat = po.answer_pattern(r.get("text"))
                        ok = pat is not None and all(po.instance_of(x, pat) for x in recs[pid]["sols"][gi])
                    if not ok and key[0] == "None" and key[2] in ("Definite", "Suggested", "Unknown") and pid is not None:
                        ok = not recs[pid]["sols"][gi]            # (no solution among the closed types of depth <= 3: the claim is not contradicted)
                    if not ok:
                        run.violation(dict(base, what="interrupted solve claims more than the full answer", interrupted=key[0], full=key[2], relation=key[1]), rp)
                    elif after.get("text") != f.get("text"):
                        run.violation(dict(base, what="solve after an interrupted solve differs from a fresh solve", op="solve", prior_interrupted=True), rp)
                    else: run.traces += 1
            run.sample({"program": text, "solver": sname, "goal": goals[0], "full": full["results"][0].get("text"),
                        "interrupted_at": {k: o["results"][0].get("text") for k, (j, o) in enumerate(runs, 1) if not o.get("error")}}, cap=4)
    run.extra["first_order_programs"] = len(progs)
    run.extra["first_order_interrupted_solves"] = nint
