"""C29: subtyping follows declared variance (SubtypeMC.tla)."""
import json, itertools
import tlc, harness, groundcheck as gc
from props import prop
from props_mem import run_tlc_mc
from common import seed, ToolError

PROGRAM = ("#[variance(Covariant)] struct CoL<'a> {} #[variance(Contravariant)] struct ContraL<'a> {} #[variance(Invariant)] struct InvL<'a> {} "
           "#[variance(Covariant)] struct CoT<T> {} #[variance(Contravariant)] struct ContraT<T> {} #[variance(Invariant)] struct InvT<T> {}")
ADT = {1: "CoL", 2: "ContraL", 3: "InvL", 4: "CoT", 5: "ContraT", 6: "InvT"}

def lt_text(t):
    return {"lstatic": "'static", "linfer": "'x"}.get(t["k"]) or ("'a" if t["m"] == 0 else "'b")

def ty_text(t):
    k, a = t["k"], t["a"]
    if k == "scalar": return {4: "u32", 3: "i32"}[t["n"]]
    if k == "ref": return "&%s %s%s" % (lt_text(a[0]), "mut " if t["m"] == 1 else "", ty_text(a[1]))
    if k == "fnptr": return "fn(%s) -> %s" % (ty_text(a[0]), ty_text(a[1]))
    if k == "tuple": return "(%s, %s)" % (ty_text(a[0]), ty_text(a[1]))
    if k == "adt": return "%s<%s>" % (ADT[t["n"]], lt_text(a[0]) if a[0]["k"].startswith("l") else ty_text(a[0]))
    raise ValueError(k)

def has_x(t):
    return t["k"] == "linfer" or any(has_x(x) for x in t["a"])

def node(t):
    k = t["k"]
    if k == "lstatic": return "static"
    if k == "lph": return "a" if t["m"] == 0 else "b"
    if k == "linfer": return "x"
    if k == "lbound": return "v%d" % t["m"]
    return "?" + k

def closure(pairs):
    s = set(pairs); changed = True
    while changed:
        changed = False
        for (p, q) in list(s):
            for (r, t) in list(s):
                if q == r and (p, t) not in s: s.add((p, t)); changed = True
    return {(p, q) for (p, q) in s if p != q}

NAMED = {"static", "a", "b", "x"}

@prop("C29")
def c29(run, tier):
    run.rule = ("TLC enumerates pairs (A, B) of types with equal shape (and all pairs of small types) built from &, &mut, fn pointers, pairs and ADTs with a "
                "covariant / contravariant / invariant lifetime or type parameter, lifetimes from 'static, two placeholders and one unknown; Sub(A, B) gives "
                "FAIL or the outlives requirements dictated by the variance of each position; `Subtype(A, B)` is posed to both real solvers under "
                "`forall<'a,'b> { exists<'x> {..} }` and `exists<'x> { forall<'a,'b> {..} }`: no solution iff FAIL, otherwise the returned constraints "
                "(with the value of 'x) must have the same transitive closure over the named lifetimes as the requirements; non-trivial = the "
                "requirement set is not empty; distinct = (A, B, quantifier order, solver)")
    run.assumptions = ["types of depth <= 2 with one lifetime or type parameter per constructor; fn pointers without higher-ranked lifetimes",
                       "requirements are compared as relations: transitive closure projected onto {'static, 'a, 'b, 'x}",
                       "trusted: TLC, the goal renderer, the variance rules written in SubtypeMC.tla (chalk's convention for the direction of outlives)"]
    big = tier == "thorough"
    stride = 1 if big else 3
    r = run_tlc_mc(run, "SubtypeMC", "SPECIFICATION Spec\nCONSTANTS\n  Stride = %d\n  Offset = %d\nINVARIANTS Reflexive AntiSym Replay\nCHECK_DEADLOCK FALSE\n" % (stride, seed() % stride),
                   "C29", workers=8, timeout=1800)
    if r is None: return
    run.exhaustive = big
    recs = gc.parse_replay(r)
    variants = []
    for rec in recs:
        sub = "Subtype(%s, %s)" % (ty_text(rec["a"]), ty_text(rec["b"]))
        if has_x(rec["a"]) or has_x(rec["b"]):
            variants.append((rec, "inner", "forall<'a, 'b> { exists<'x> { %s } }" % sub))
            variants.append((rec, "outer", "exists<'x> { forall<'a, 'b> { %s } }" % sub))
        else:
            variants.append((rec, "none", "forall<'a, 'b> { %s }" % sub))
    for solver in (gc.SLG, gc.REC):
        sname = gc.solver_name(solver)
        jobs = [{"id": i, "program": PROGRAM, "solver": solver, "detail": True, "ops": [{"op": "solve", "goal": g}]} for i, (_, _, g) in enumerate(variants)]
        obs = harness.run("solve", jobs, timeout=300)
        for (rec, order, goal), o in zip(variants, obs):
            want = closure({(node(p["x"]), node(p["y"])) for p in rec["req"]})
            run.case([goal, sname], nontrivial=bool(rec["req"]))
            rp = {"program": PROGRAM, "goal": goal, "solver": solver, "expected": {"fail": rec["fail"], "requirements": sorted(want)}, "observed": o}
            base = {"solver": sname, "order": order}
            if o.get("error"):
                run.violation(dict(base, what="abort-or-hang", detail=str(o["error"])[:80]), rp); continue
            res = o["results"][0]
            cls = res.get("class")
            if cls == "Panic" or "error" in res:
                run.violation(dict(base, what="panic or goal error", text=str(res)[:100]), rp); continue
            if rec["fail"]:
                if cls != "None": run.violation(dict(base, what="Subtype succeeds although the structures differ", observed=cls, goal=goal[:90]), rp)
                else: run.traces += 1
                continue
            if cls != "Unique":
                run.violation(dict(base, what="Subtype of structurally equal types is not Unique", observed=cls, goal=goal[:90]), rp); continue
            d = res["detail"]
            pairs = set()
            for c in d["constraints"]:
                if c["c"] == "outlives": pairs.add((node(c["a"]), node(c["b"])))
            if order != "none" and d["subst"]:
                xv = node(d["subst"][0])
                pairs.add(("x", xv)); pairs.add((xv, "x"))
            got = {(p, q) for (p, q) in closure(pairs) if p in NAMED and q in NAMED}
            if got != want:
                run.violation(dict(base, what="lifetime requirements differ from those dictated by variance", goal=goal[:100],
                                   missing=sorted(want - got)[:4], extra=sorted(got - want)[:4]), rp)
            else:
                run.traces += 1
            if rec["req"]: run.sample({"goal": goal, "solver": sname, "requirements": sorted(want), "impl": res.get("text", "")[:160]}, cap=6)
    run.extra["goals_posed"] = len(variants)
