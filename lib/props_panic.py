"""C12: a panic in a database callback leaves the solver usable (crash-point enumeration on SLGGroundMC)."""
import json, random
import ground, groundcheck as gc, harness, tlc
from props import prop, GROUND_ASSUME, fam
from common import seed, ToolError

def engine_index_of_calls(events, opidx):
    """For the opidx-th public call (1-based) of a traced clean run with DbCall events: list of (call number relative to
    the call's first callback, k) where k = 1 + number of engine events of that call emitted before the callback."""
    out, cur, j, first = [], 0, 0, None
    for e in events:
        ev = e["ev"]
        if ev == "Def": continue
        if ev == "Op":
            cur = e["idx"]; j = 0; continue
        if cur != opidx: continue
        if ev == "DbCall":
            if first is None: first = e["call"]
            out.append((e["call"] - first + 1, j + 1))
        elif ev != "OpEnd":
            j += 1
    return out

@prop("C12", "fault_enumeration")
def c12(run, tier):
    run.rule = ("crash points: for every program of the propositional family, every root goal and every engine event index k, TLC explores the history "
                "<<solve(g) whose callback panics instead of the k-th engine event, solve(g')>> (thorough: also <<solve, panic, solve>>) at the engine steps "
                "that call into the database (table construction, unification of an answer) and checks PanicSafe (every later solve answers like a fresh "
                "solver) and NothingLost (no strand is lost); every database callback of a clean real run must fall on such a step; the real SLG engine is run with a panic injected into the n-th database callback for the callbacks n that "
                "fall before event k in a clean run: the panicking call must report the panic and every later call must give the answer and "
                "take exactly the number of engine steps the specification computes (executions validated against SLG.tla incl. Panic and "
                "DropState); the recursive solver (cache on/off) is run with the panic injected at every callback n and later answers are compared "
                "with the program's meaning; non-trivial = the crash point is after the first table exists (k >= 3); distinct = (program, ops, solver)")
    run.assumptions = GROUND_ASSUME + ["one injected panic per history; the follow-up panic of the property's quantifier is not enumerated",
                                       "crash points are callbacks of WrapDb (every RustIrDatabase / UnificationDatabase method except interner())"]
    big = tier == "thorough"
    if big: f, byid = fam(run, tier, None, None, (2, 2, 2, True, True), 100)
    else:   f, byid = fam(run, tier, (2, 2, 2, True, True), 24, None)
    recs = gc.model_check(run, f, gc.goals_atoms_and_not, {"MaxOps": 3 if big else 2, "Kinds": ["solve", "panic"], "MaxPanic": 130, "PanicPlans": True,
                                                          "Invariants": ["PanicSafe", "NothingLost", "BoundedWork"]}, "C12", timeout=3000)
    # keep the behaviours in which the panic really fired
    recs = [r for r in recs if any(x["kind"] == "panic" and x["class"] == "Panic" for x in r["results"])]
    run.extra["crash_behaviours_in_model"] = len(recs)
    rnd = random.Random(seed())
    # ---- pass 1: clean traced runs to locate the callbacks of the crashing call
    keyof = lambda r, i: (r["id"], tuple(x["goal"] for x in r["results"][:i + 1]))
    clean = {}
    for r in recs:
        i = next(j for j, x in enumerate(r["results"]) if x["kind"] == "panic")
        clean.setdefault(keyof(r, i), (r["id"], [x["goal"] for x in r["results"][:i + 1]]))
    keys = list(clean)
    for solver in (gc.SLG, gc.REC, gc.RECNC):
        sname = gc.solver_name(solver)
        jobs = [{"id": n, "program": ground.render(byid[clean[k][0]], 4), "solver": solver, "trace": True, "dbcalls": True, "defs": False,
                 "ops": [{"op": "solve", "goal": ground.goal_text(g)} for g in clean[k][1]]} for n, k in enumerate(keys)]
        obs = harness.run("solve", jobs, timeout=300)
        calls = {}
        for k, o in zip(keys, obs):
            if o.get("error") or any(y.get("class") == "Panic" for y in o["results"]):
                calls[k] = None; continue
            calls[k] = engine_index_of_calls(o["events"], len(clean[k][1]))
        # every database callback of the real engine must fall on an engine step at which the specification lets a callback panic
        if sname == "slg":
            model_ks = {}
            for r in recs:
                i = next(j for j, x in enumerate(r["results"]) if x["kind"] == "panic")
                model_ks.setdefault(keyof(r, i), set()).add(r["results"][i]["k"])
            for k in keys:
                if not calls.get(k): continue
                missing = sorted({kk for (_, kk) in calls[k]} - model_ks.get(k, set()))
                if missing:
                    run.violation({"solver": "slg", "layer": "spec-coverage", "what": "a database callback happens at an engine step where the specification admits no panic"},
                                  {"program": ground.render(byid[clean[k][0]], 4), "goals": clean[k][1], "steps": missing}); break
        # ---- pass 2: inject
        jobs, meta = [], []
        for r in recs:
            i = next(j for j, x in enumerate(r["results"]) if x["kind"] == "panic")
            cm = calls.get(keyof(r, i))
            if not cm: continue
            if sname == "slg":
                ns = [n for (n, k) in cm if k == r["results"][i]["k"]]
                if not ns: continue
                if not big and len(ns) > 2: ns = [ns[0], ns[-1]]
            else:
                # no engine model of the recursive solver: every callback is a crash point; use each model record once (k = 1 .. ) as a slot
                allns = [n for (n, k) in cm]
                kk = r["results"][i]["k"]
                if kk > len(allns): continue
                ns = [allns[kk - 1]]
            for n in ns:
                ops = []
                for j, x in enumerate(r["results"]):
                    op = {"op": "solve", "goal": ground.goal_text(x["goal"])}
                    if j == i: op["panic_at"] = n
                    ops.append(op)
                jobs.append({"id": len(jobs), "program": ground.render(byid[r["id"]], 4), "solver": solver, "trace": sname == "slg", "defs": False, "ops": ops})
                meta.append((r, i, n))
        if not big and sname != "slg" and len(jobs) > 1500:
            pick = sorted(rnd.sample(range(len(jobs)), 1500)); jobs = [jobs[p] for p in pick]; meta = [meta[p] for p in pick]
            for n, j in enumerate(jobs): j["id"] = n
        obs = harness.run("solve", jobs, timeout=300)
        traces = []
        for (r, i, n), job, o in zip(meta, jobs, obs):
            k = r["results"][i]["k"]
            run.case([job["program"], job["ops"], sname], nontrivial=k >= 3)
            rp = {"program": job["program"], "solver": solver, "ops": job["ops"], "expected": r["results"], "observed": o}
            base = {"solver": sname}
            if o.get("error"):
                run.violation(dict(base, what="abort-or-hang", detail=str(o["error"])[:80]), rp); continue
            bad = False
            for j, (x, y) in enumerate(zip(r["results"], o["results"])):
                cls = y.get("class")
                if j == i:
                    if cls != "Panic" or "injected" not in y.get("text", ""):
                        bad |= run.violation(dict(base, what="the injected panic was not reported by the call", observed=cls), rp)
                    continue
                if cls == "Panic":
                    if sname == "slg" and x["class"] == "Panic" and "Negative subgoal had delayed_subgoals" in y.get("text", ""):
                        # the as-is specification predicts the engine's own panic (named deviation, KF4)
                        bad |= run.violation({"solver": "slg", "deviation": "SLG_NegativeOnDelayedAnswer", "what": "panic", "text": y.get("text", "")[:80]}, rp)
                    else:
                        bad |= run.violation(dict(base, what="a later call panics", after_panic=(j > i), text=y.get("text", "")[:70]), rp)
                    continue
                if sname == "slg":
                    if cls != x["class"]:
                        bad |= run.violation(dict(base, what="result differs from specification", after_panic=(j > i), expected=x["class"], observed=cls), rp)
                    elif y.get("nevents") != x["nev"] + 1:
                        bad |= run.violation(dict(base, what="engine step count differs from specification", after_panic=(j > i),
                                                  expected_steps=x["nev"] + 1, observed_steps=y.get("nevents")), rp)
                    elif cls != x["truth"] and not x.get("stale"):
                        # the as-is specification predicts the wrong answer: a strand held by ensure_root_answer was lost
                        dev = "SLG_PanicWhileStrandHeld" if (x["lost"] > 0 and j > i) else "unnamed"
                        bad |= run.violation({"solver": "slg", "deviation": dev, "what": "answer after a panic differs from a fresh solver's"}, rp)
                elif cls != x["truth"]:
                    bad |= run.violation(dict(base, what="answer after a panic differs from a fresh solver's", after_panic=(j > i),
                                              expected=x["truth"], observed=cls), rp)
            own_panic = any(y.get("class") == "Panic" for j, y in enumerate(o["results"]) if j != i)
            if sname == "slg" and not bad and not own_panic:     # the engine's own panic emits no Panic event: not a complete trace
                traces.append(([e for e in o.get("events", []) if e["ev"] not in ("Def", "DbCall")], rp))
            if k >= 3:
                run.sample({"program": job["program"], "ops": job["ops"], "solver": sname, "spec": [[x["goal"], x["kind"], x["k"], x["class"], x["nev"], x["lost"]] for x in r["results"]],
                            "impl": [[y.get("class"), y.get("nevents")] for y in o["results"]]}, cap=6)
        if traces: gc.validate_traces(run, traces, "panic")
        run.extra["crash_runs_" + sname] = len(jobs)
