"""C27: in-place folding (InPlace.tla)."""
import os, json, tempfile, re
import tlc, harness, groundcheck as gc
from props import prop
from common import seed, ToolError

def run_tlc_mc(run, module, cfg_text, tag, env=None, timeout=900, workers=6, xmx="8g"):
    """Writes spec/MC_<tag>.cfg, runs TLC on <module>, adds counts; invariant violations become
    spec-layer violations; returns the TlcResult (or None after a violation)."""
    cfgname = "MC_%s.cfg" % tag
    with open(os.path.join(tlc.SPEC, cfgname), "w") as f: f.write(cfg_text)
    try:
        r = tlc.tlc(module, cfgname, env=env, workers=workers, timeout=timeout, xmx=xmx)
    finally:
        os.unlink(os.path.join(tlc.SPEC, cfgname))
    run.add_tlc(r)
    if r.invariant_violated:
        for inv in r.invariant_violated:
            run.violation({"layer": "spec", "invariant": inv}, {"how": "TLC counterexample of " + module, "cfg": cfg_text, "tlc_tail": r.out[-3000:]})
        return None
    if not r.ok or not r.finished or r.timeout:
        raise ToolError("TLC failed on %s (%s): rc=%s timeout=%s\n%s" % (module, tag, r.rc, r.timeout, r.out[-5000:]))
    return r

def norm_events(evs):
    out = []
    for e in evs:
        ev = e["ev"]; i = e.get("i", 0)
        if ev == "IpNew": i = e["len"]
        elif ev == "IpGuard": i = e["mip"]
        elif ev == "IpRead" and e.get("mip") != e.get("i"): ev = "IpReadStaleMip"
        elif ev in ("IpFinish", "IpDealloc", "IpBoxBegin", "IpBoxWrite"): i = 0
        out.append({"ev": ev, "i": i})
    return out

@prop("C27")
def c27(run, tier):
    maxn = 4 if tier == "quick" else 6
    run.rule = ("TLC enumerates every input of InPlace.tla (vec/box, length <= MaxN, every failure position, error return / panic, identical layout "
                "(in place) / different layout / ZST (fallback)) and checks NoUB, NoDoubleDrop, NoDoubleFree, FailedExact, SucceededExact, "
                "ResultIntact in every state; each behaviour's input is run on the real fallible_map_vec / fallible_map_box (through the cfg hook "
                "and, for identical layouts, through TypeFoldable for Vec<T>/Box<T>) with drop-recording elements and a watched buffer; the "
                "recorded event sequence must be the specification's log (exact on the in-place path) and is validated as a behaviour of "
                "InPlace.tla by TLC; non-trivial = a failure is injected or n >= 2; distinct = (input, route)")
    run.assumptions = ["reads of freed or uninitialised memory that neither change a drop log nor crash the process are not observable by this check",
                       "trusted: TLC, the drop-recording element types and the quarantining allocator of the harness",
                       "lengths <= %d" % maxn]
    r = run_tlc_mc(run, "InPlaceMC", "SPECIFICATION Spec\nCONSTANTS\n  MaxN = %d\nINVARIANTS NoUB NoDoubleDrop NoDoubleFree SuccessDropsNothingEarly FailedExact SucceededExact ResultIntact Replay\nCHECK_DEADLOCK TRUE\n" % maxn, "C27")
    if r is None: return
    run.exhaustive = True
    recs = gc.parse_replay(r)
    byinp = {}
    for rec in recs: byinp.setdefault(json.dumps(rec["inp"], sort_keys=True), []).append(rec)
    jobs = []
    for k, rs in byinp.items():
        inp = rs[0]["inp"]
        vias = ["hook"] + (["api"] if inp["inplace"] and not inp["zst"] else [])
        for via in vias: jobs.append({"id": len(jobs), "via": via, "inp": inp, "key": k})
    obs = harness.run("inplace", jobs, timeout=120)
    traces = []
    for job, o in zip(jobs, obs):
        inp = job["inp"]; exp = byinp[job["key"]]
        run.case([job["key"], job["via"]], nontrivial=(inp["failAt"] >= 0 or inp["n"] >= 2))
        rp = {"job": job, "observed": o, "expected_logs": [e["log"] for e in exp[:3]]}
        base = {"via": job["via"], "kind": inp["kind"], "inplace": inp["inplace"], "mode": inp["mode"]}
        if o.get("error"):
            run.violation(dict(base, what="abort-or-hang", detail=str(o["error"])[:80]), rp); continue
        evs = norm_events(o["events"])
        want_outcome = "ok" if exp[0]["outcome"] == "succeeded" else inp["mode"]
        bad = False
        if o["outcome"] != want_outcome:
            bad |= run.violation(dict(base, what="outcome differs from specification", expected=want_outcome, observed=o["outcome"]), rp)
        if o.get("watched") and o["frees"] != exp[0]["frees"]:
            bad |= run.violation(dict(base, what="buffer freed %d time(s), specification says %d" % (o["frees"], exp[0]["frees"])), rp)
        if inp["inplace"] and not any(evs == [{"ev": x["ev"], "i": x["i"]} for x in e["log"]] for e in exp):
            bad |= run.violation(dict(base, what="event sequence differs from the specification's log"), rp)
        run.sample({"inp": inp, "via": job["via"], "events": [[e["ev"], e["i"]] for e in evs], "outcome": o["outcome"], "frees": o["frees"]}, cap=5)
        traces.append((job, [{"ev": "Input", "i": 0, "inp": inp}] + evs +
                       [{"ev": "End", "i": 0, "outcome": o["outcome"], "frees": o["frees"] if o.get("watched") else -1}], rp))
    # impl -> spec
    validate_concat(run, traces, "InPlaceTrace", lambda job: {"via": job["via"], "kind": job["inp"]["kind"], "inplace": job["inp"]["inplace"]})

def validate_concat(run, traces, module, sig_of, chunk=4000):
    """traces: list of (job, lines, replay).  Concatenates them into as few TLC runs as possible; on rejection attributes it to
    the run containing the first unconsumed line and continues after it."""
    i = 0
    while i < len(traces):
        lines, starts, j = [], [], i
        while j < len(traces) and (len(lines) < chunk or j == i):
            starts.append((j, len(lines) + 1)); lines.extend(traces[j][1]); j += 1
        ok, r, rej = tlc.validate_trace(lines, module=module, timeout=600)
        accepted = r.ok and rej is None and not r.timeout
        if accepted:
            run.traces += j - i; i = j; continue
        if r.timeout: raise ToolError("trace validation timed out (%s)" % module)
        if rej is None and not r.invariant_violated:
            raise ToolError("trace validation failed to run (%s): %s" % (module, r.out[-3000:]))
        if rej is None:
            # invariant violated on a real execution: find the run from the counterexample's position l
            m = re.findall(r"/\\ l = (\d+)", r.out); rej = int(m[-1]) + 1 if m else 1
        bad = starts[0][0]
        for (k, st) in starts:
            if st <= rej: bad = k
        run.traces += bad - i
        job, tl, rp = traces[bad]
        run.violation(dict(sig_of(job), layer="trace", what="execution is not a behaviour of %s" % module,
                           invariant=(r.invariant_violated or [None])[0]),
                      dict(rp, rejected_line=rej, trace=tl, tlc_tail=r.out[-1500:]))
        i = bad + 1
