"""Running the Rust conformance harness (cvh) in child processes, with crash attribution."""
import os, json, subprocess, tempfile, time
from concurrent.futures import ThreadPoolExecutor

ROOT = os.path.dirname(os.path.dirname(os.path.abspath(__file__)))
CVH = os.path.join(ROOT, "harness", "target", "release", "cvh")
WORK = os.path.join(ROOT, "work")

def build():
    """(Re)build the harness against /repo's working tree, hooks on.  Returns (ok, log)."""
    lock = os.path.join(ROOT, "harness", "Cargo.lock")
    if not os.path.exists(lock):
        import shutil; shutil.copy("/repo/Cargo.lock", lock)
    env = dict(os.environ, CARGO_NET_OFFLINE="true")
    p = subprocess.run(["cargo", "build", "--release", "--offline"], cwd=os.path.join(ROOT, "harness"),
                       env=env, stdout=subprocess.PIPE, stderr=subprocess.STDOUT, text=True)
    return p.returncode == 0, p.stdout

def _run_chunk(mode, jobs, timeout):
    """Runs jobs (list of dict) in one child; on abnormal exit, the job being processed is
    reported as {"id":..,"error":"abort: ..."} and the rest are re-run."""
    os.makedirs(WORK, exist_ok=True)
    out = []
    start = 0
    fd, inp = tempfile.mkstemp(prefix="jobs_", suffix=".ndjson", dir=WORK); os.close(fd)
    outp = inp + ".out"
    with open(inp, "w") as f:
        for j in jobs: f.write(json.dumps(j) + "\n")
    try:
        while start < len(jobs):
            try:
                p = subprocess.run([CVH, mode, inp, outp, str(start)], stdout=subprocess.PIPE, stderr=subprocess.STDOUT,
                                   timeout=timeout, text=True)
                rc, why = p.returncode, p.stdout[-300:]
            except subprocess.TimeoutExpired:
                rc, why = -999, "wall-clock timeout (tool backstop)"
            got = []
            if os.path.exists(outp):
                for l in open(outp):
                    l = l.strip()
                    if l:
                        try: got.append(json.loads(l))
                        except Exception: pass
            out.extend(got)
            if rc == 0:
                break
            # crashed while processing job number `start + len(got)`
            k = start + len(got)
            if k < len(jobs):
                out.append({"id": jobs[k].get("id"), "error": "abort: rc=%s %s" % (rc, why.strip().replace("\n", " | "))})
            start = k + 1
    finally:
        for pth in (inp, outp, outp + ".progress"):
            if os.path.exists(pth): os.unlink(pth)
    return out

def run(mode, jobs, par=12, chunk=None, timeout=600):
    """Run all jobs, in parallel child processes.  Returns observations in job order."""
    if not jobs: return []
    chunk = chunk or max(1, min(200, (len(jobs) + par - 1) // par))
    chunks = [jobs[i:i + chunk] for i in range(0, len(jobs), chunk)]
    with ThreadPoolExecutor(max_workers=par) as ex:
        res = list(ex.map(lambda c: _run_chunk(mode, c, timeout), chunks))
    flat = [o for r in res for o in r]
    byid = {}
    for o in flat: byid.setdefault(json.dumps(o.get("id")), o)
    return [byid.get(json.dumps(j.get("id")), {"id": j.get("id"), "error": "missing"}) for j in jobs]
