"""Per-property check configurations (DESIGN.md section 6)."""
import itertools, random, json
import ground, groundcheck as gc, tlc, harness, corpus
from common import seed, ToolError

CHECKS = {}
LEVEL = {}

def prop(pid, level="model_checking"):
    def deco(f):
        CHECKS[pid] = f; LEVEL[pid] = level
        return f
    return deco

GROUND_ASSUME = [
    "fragment: propositional programs over atoms `S_i: T_i` (<= 4 atoms), impls with where-clauses, custom clauses with stratified negation, #[coinductive] traits, no cycle mixing inductive and coinductive traits",
    "trusted: TLC, the program renderer lib/ground.py, the declarative meaning `TrueAtoms` of SLGGround.tla (lfp / gfp per SCC)",
    "recursive solver: bound to the specification through final answers only (no engine model of chalk-recursive yet)",
]

def fam(run, tier, quick_args, quick_n, thorough_args, thorough_n=None):
    if tier == "quick":
        f = ground.family(*quick_args, seed=seed(), sample=quick_n)
        run.exhaustive = quick_n is None or len(f) < quick_n
    else:
        f = ground.family(*thorough_args, seed=seed(), sample=thorough_n)
        run.exhaustive = thorough_n is None or len(f) < thorough_n
    return f, {p["id"]: p for p in f}

def smoke_histories(run, tag):
    """the fixed structured programs of ground.smoke() (cycles with late-failing heads and readers of provisional results, all
    condition orders): every history of two goals, model-checked and replayed like the sampled family"""
    sm = ground.smoke()
    byid = {p["id"]: p for p in sm}
    recs = gc.model_check(run, sm, gc.goals_atoms, {"MaxOps": 2, "Kinds": ["solve"], "MaxEvents": 600,
                                                   "Invariants": ["ResultsCorrect", "DeviationShape", "EnginePanicShape"]}, tag)
    gc.replay(run, recs, byid, [gc.SLG, gc.REC, gc.RECNC])
    run.extra["smoke_programs"] = len(sm)

def rec_engine(run, tier, tag, max_ops, max_stop, caches, goals=None):
    """the recursive solver in lock-step with RecGround.tla (answers and engine events of every behaviour) on a sampled family plus the
    structured programs of ground.smoke()"""
    import props_rec
    n = 40 if tier == "quick" else 160
    f = ground.family(2, 2, 2, True, True, seed=seed(), sample=n) if tier == "quick" else ground.family(3, 3, 1, True, True, seed=seed(), sample=n)
    fam, ids = [], set()
    for p in f + ground.smoke():
        p = dict(p)
        while p["id"] in ids: p["id"] += 5000000
        ids.add(p["id"]); fam.append(p)
    byid = {p["id"]: p for p in fam}
    for c in caches:
        props_rec.rec_lockstep(run, fam, byid, goals or gc.goals_atoms_and_not, tag + ("c" if c else "n"), max_ops=max_ops, max_stop=max_stop, cache_on=c)

# ------------------------------------------------------------------------------------------------
@prop("C02")
def c02(run, tier):
    run.rule = ("TLC enumerates (program, closed goal) from the propositional family incl. negation and coinduction; "
                "invariant ResultsCorrect (engine model answers Unique/None exactly as the program means); every behaviour replayed on "
                "real SLG (answer + step count), recursive (cache on/off) under two limit configurations; SLG traces validated against SLG.tla; "
                "the recursive solver is additionally run in lock-step with its own engine model RecGround.tla (answers and the exact sequence of "
                "engine events: cache / search-graph hits, new goals, iteration results, what becomes of a finished goal), invariants CacheSound, GraphEmpty; "
                "non-trivial = program has >= 1 clause; distinct = (program text, ops, solver)")
    run.assumptions = GROUND_ASSUME + ["limit configurations: SLG max_size 10 and 30; recursive overflow 100/max_size 30 and overflow 20/max_size 10"]
    f, byid = fam(run, tier, (2, 2, 2, True, True), 500, (3, 3, 1, True, True), 9000)
    if tier == "thorough":
        f2 = ground.family(2, 2, 2, True, True)
        for p in f2: p["id"] += 1000000
        f += f2; byid.update({p["id"]: p for p in f2})
    recs = gc.model_check(run, f, gc.goals_atoms_and_not, {"MaxOps": 1, "Kinds": ["solve"], "Invariants": ["ResultsCorrect", "BoundedWork"]}, "C02")
    gc.replay(run, recs, byid, [gc.SLG, gc.REC, gc.RECNC])
    gc.replay(run, recs, byid, [{"kind": "slg", "max_size": 30}, {"kind": "rec", "overflow": 20, "cache": True, "max_size": 10}],
              validate=False, label="limits2")
    rec_engine(run, tier, "C02r", max_ops=1, max_stop=0, caches=(True, False))

# ------------------------------------------------------------------------------------------------
def auto_ok(p):
    """Programs expressible with one auto trait over structs: every atom has exactly one clause
    (the struct's fields) or none (negative impl); bodies positive."""
    heads = [h for h, b in p["clauses"]]
    return len(set(heads)) == len(heads) and all(pos for h, b in p["clauses"] for pos, a in b)

def render_auto(p, natoms=4):
    """atom a_i = `S_i: Send`; clause a_i :- a_j, a_k = `struct S_i { f: S_j, g: S_k }`; an atom
    without clause = `impl !Send for S_i {}`."""
    out = ["#[auto] trait Send {}"]
    bodies = {h: b for h, b in p["clauses"]}
    for i in range(1, natoms + 1):
        a = "a%d" % i
        if a in bodies:
            out.append("struct S%d { %s }" % (i, ", ".join("f%d: S%s" % (k, x[1:]) for k, (pos, x) in enumerate(bodies[a]))))
        else:
            out.append("struct S%d {}" % i)
            out.append("impl !Send for S%d {}" % i)
    return " ".join(out)

def op_auto(x):
    return {"op": "solve", "goal": "S%s: Send" % x["goal"][1:]}

@prop("C05")
def c05(run, tier):
    run.rule = ("family of propositional programs with every choice of #[coinductive] traits (cyclic requirements included), histories of 2 goals "
                "on one solver; invariant ResultsCorrect against the greatest-fixed-point meaning; replay on SLG/recursive(cache on/off); "
                "the all-coinductive one-clause-per-atom members are also rendered as one #[auto] trait over (mutually) recursive structs with "
                "negative impls and replayed; first-order level (AutoMC.tla): sampled programs with two auto traits over structs / enums / generic "
                "ADTs / phantom data / built-in constructors with fields, explicit positive, negative, generic and blanket impls with where-clauses, "
                "12 goals each (closed types and hypothetical goals under forall) asked as one history per solver; TLC computes the "
                "greatest-fixed-point meaning (invariants ExplicitDecides, FixedPointEquation, Independent) and every answer of SLG / recursive "
                "(cache on, off) must equal it; non-trivial = program has a clause")
    run.assumptions = GROUND_ASSUME + ["first-order family: field types of a generic ADT and where-clauses of impls never mention a larger type than "
                                       "the one being defined (finite reachability), so the greatest fixed point over the reachable atoms is exact; "
                                       "closures, coroutines, dyn and opaque types are not in the family"]
    f, byid = fam(run, tier, (2, 3, 2, False, True), 350, (3, 3, 1, False, True), 6000)
    recs = gc.model_check(run, f, gc.goals_atoms, {"MaxOps": 2, "Kinds": ["solve"], "Invariants": ["ResultsCorrect", "DeviationShape", "EnginePanicShape", "BoundedWork"]}, "C05")
    smoke_histories(run, "C05s")
    gc.replay(run, recs, byid, [gc.SLG, gc.REC, gc.RECNC])
    # auto-trait rendering of the same abstract programs
    autos = [r for r in recs if auto_ok(byid[r["id"]]) and set(byid[r["id"]]["co"]) == set(ground.all_atoms(byid[r["id"]])) and byid[r["id"]]["clauses"]]
    for solver in (gc.SLG, gc.REC, gc.RECNC):
        sname = gc.solver_name(solver)
        jobs = [{"id": i, "program": render_auto(byid[r["id"]]), "solver": solver, "trace": sname == "slg", "defs": False,
                 "ops": [op_auto(x) for x in r["results"]]} for i, r in enumerate(autos)]
        obs = harness.run("solve", jobs, timeout=300)
        traces = []
        for r, o, job in zip(autos, obs, jobs):
            rp = {"program": job["program"], "solver": solver, "ops": job["ops"], "expected": r["results"], "observed": o}
            run.case([job["program"], job["ops"], sname])
            if o.get("error"):
                run.violation({"solver": sname, "render": "auto", "what": "abort-or-hang"}, rp); continue
            bad = False
            for x, y in zip(r["results"], o["results"]):
                if y.get("class") != x["truth"]:
                    j = r["results"].index(x)
                    if sname == "slg" and gc.invalid_answer_in_op(o, j):
                        bad |= run.violation({"solver": "slg", "deviation": "SLG_RootSkipsDelayedAnswer", "what": "answer contradicts the program's meaning",
                                              "expected": x["truth"], "observed": y.get("class")}, rp)
                    else:
                        bad |= run.violation({"solver": sname, "render": "auto", "what": "auto trait result differs from coinductive meaning",
                                              "expected": x["truth"], "observed": y.get("class")}, rp)
            if sname == "slg" and not bad: traces.append(([e for e in o.get("events", []) if e["ev"] != "Def"], rp))
            run.sample({"program": job["program"], "ops": job["ops"], "solver": sname, "expected": [x["truth"] for x in r["results"]],
                        "impl": [y.get("class") for y in o["results"]]}, cap=6)
        if traces: gc.validate_traces(run, traces, "auto")
    run.extra["auto_trait_programs"] = len(autos)
    import props_auto
    props_auto.auto_first_order(run, tier)

# ------------------------------------------------------------------------------------------------
@prop("C09")
def c09(run, tier):
    run.rule = ("invariant BoundedWork (every public call of the engine model ends within MaxEvents steps) over the propositional family x "
                "{solve, solve_limited}; replay: real SLG performs exactly the number of engine steps the specification computes, the recursive "
                "solver returns under a watchdog, no call panics; plus every (program, goal) of the repository's test corpus under both solvers "
                "with watchdog, SLG traces validated against SLG.tla (each public call reaches OpEnd); first-order level: sampled programs with unbounded "
                "answer sets, growing types and where-clauses larger than the impl head, #[non_enumerable] traits, 17 goals with an unknown or a "
                "hypothesis + 5 closed goals under SLG (max_size 10 and 4) and the recursive solver (default limits and overflow 20 / max_size 4): "
                "every call returns under the watchdog, does not panic (recursive solver: except `overflow depth reached`, the property's proviso), "
                "solve_multiple streams (callback always true) end by themselves within the number of answers the size limit admits, and the SLG "
                "executions (solve and solve_multiple) are behaviours of SLG.tla, whose TableNew / AnswerNew actions require the subgoal / answer "
                "to be within the size limit")
    run.assumptions = GROUND_ASSUME + ["corpus: tests whose program uses negative cycles (documented panics, #[should_panic]) are excluded from the no-panic claim",
                                       "watchdog: 300 s per chunk of jobs; a hang is reported as a violation"]
    f, byid = fam(run, tier, (2, 2, 2, True, True), 300, (3, 3, 1, True, True), 6000)
    recs = gc.model_check(run, f, gc.goals_atoms_and_not, {"MaxOps": 1, "Kinds": ["solve", "limited"], "MaxStop": 2, "MaxEvents": 300,
                                                          "Invariants": ["BoundedWork", "ResultsCorrect", "InterruptSafe"]}, "C09")
    gc.replay(run, recs, byid, [gc.SLG, gc.REC])
    corpus_run(run, tier, want="terminate")
    import props_term
    props_term.terminate_first_order(run, tier)

# ------------------------------------------------------------------------------------------------
@prop("C10")
def c10(run, tier):
    run.rule = ("TLC enumerates every history (orders, repetitions) of up to MaxOps goals on one solver instance for each program of the family; "
                "invariant ResultsCorrect: each answer equals the program's meaning, hence the answer of a fresh solver; replay on real SLG "
                "(answer and step count per call), recursive with cache on and off; SLG traces validated; RecGround.tla: the recursive solver's "
                "fixed-point engine (cache, search graph, stack, minimums, iteration) as a recursive operator, every history of two solves model-checked "
                "(ResultsCorrect, CacheSound: every cache entry is the meaning of its goal, GraphEmpty) and the real solver's engine events compared "
                "event by event; first-order level: goals of ImplMC / MiniMC programs (unknowns, several answers, aggregated guidance) asked as histories on one "
                "solver (every goal twice, two orders) must get exactly the answer a fresh solver gives")
    run.assumptions = GROUND_ASSUME
    if tier == "quick":
        f, byid = fam(run, tier, (2, 2, 2, True, True), 70, None)
        ops = 3
    else:
        f, byid = fam(run, tier, None, None, (3, 3, 1, True, True), 500)
        ops = 3
    recs = gc.model_check(run, f, gc.goals_atoms_and_not, {"MaxOps": ops, "Kinds": ["solve"], "Invariants": ["ResultsCorrect", "DeviationShape", "EnginePanicShape", "BoundedWork"]}, "C10")
    smoke_histories(run, "C10s")
    recs = [r for r in recs if len(r["results"]) >= 2]
    gc.replay(run, recs, byid, [gc.SLG, gc.REC, gc.RECNC])
    rec_engine(run, tier, "C10r", max_ops=2, max_stop=0, caches=(True,))
    import props_order
    props_order.history_generic(run, tier)

# ------------------------------------------------------------------------------------------------
@prop("C11")
def c11(run, tier):
    run.rule = ("TLC enumerates histories of solve / solve_limited(callback false at its k-th consultation, k <= MaxStop) on one solver; invariants "
                "InterruptSafe (an interrupted call returns the full answer or `Ambiguous; no guidance`) and ResultsCorrect (every later full solve "
                "returns the fresh answer); replay on real SLG (answer, step count, number of callback consultations) and recursive solver; first-order level: "
                "ApproxMC.tla defines which results an interrupted solve may return for a given full answer (Approx = equal, or ambiguous and claiming "
                "nothing the full answer does not imply; checked to be a sound preorder) and prints the table; goals with unknowns of ImplMC / MiniMC "
                "programs are solved fully, then on a fresh solver with the callback returning false at its k-th consultation (k <= 5, thorough 8) followed "
                "by an unlimited solve on the same solver: the interrupted answer must be admissible by the table and the later solve must equal the fresh one; "
                "RecGround.tla: histories with interruptions of the recursive solver (cache on and off) model-checked (InterruptSafe, CacheSound: nothing "
                "computed after an interruption reaches the cache) and compared with the real solver event by event")
    run.assumptions = GROUND_ASSUME + ["ground goals: the only weaker answer is Ambig(Unknown)",
                                       "first-order: substitutions are compared as equal / more general / other (the three patterns of ApproxMC.tla); the recursive "
                                       "solver with the cache disabled is not run on the generic-struct programs (exponential even without interruption)"]
    if tier == "quick":
        f, byid = fam(run, tier, (2, 2, 2, True, True), 60, None)
    else:
        f, byid = fam(run, tier, None, None, (2, 2, 2, True, True), 400)
    recs = gc.model_check(run, f, gc.goals_atoms_and_not, {"MaxOps": 2, "Kinds": ["solve", "limited"], "MaxStop": 2 if tier == "quick" else 3,
                                                          "Invariants": ["ResultsCorrect", "DeviationShape", "EnginePanicShape", "InterruptSafe", "BoundedWork"]}, "C11")
    recs = [r for r in recs if any(x["kind"] == "limited" for x in r["results"])]
    gc.replay(run, recs, byid, [gc.SLG, gc.REC, gc.RECNC])
    rec_engine(run, tier, "C11r", max_ops=2, max_stop=2, caches=(True, False), goals=gc.goals_atoms)
    import props_intr
    props_intr.interrupt_first_order(run, tier)

# ------------------------------------------------------------------------------------------------
@prop("C13")
def c13(run, tier):
    run.rule = ("for every multiset of clauses of the family all permutations (declaration orders) are members of the family; TLC checks "
                "ResultsCorrect for each order against the order-independent meaning; replay on real SLG / recursive; additionally the driver "
                "checks that all orders of one multiset got the same real answers; item order is also permuted at the text level "
                "(structs/traits/impls shuffled by seed); first-order level (MiniMC.tla, whose meaning is a function of the SET of impls): "
                "programs with up to 6 impls incl. generic and blanket impls over three traits, 25 goals each, solved under 6 (thorough: 12) "
                "declaration orders (impls permuted, declarations before or after the impls) by both solvers: every order must give the answer "
                "the meaning demands and the same answer text as every other order; ImplMC.tla: coherent programs (invariant FamilyCoherent = the overlap "
                "check) over two closed and two generic structs with 3..7 impls, up to two where-clauses each, blanket impls; meaning of 10 closed goals "
                "per program (OrderIrrelevant: evaluated on the reversed list as well), 15 goals with unknowns / hypotheses compared across orders "
                "(impls permuted, where-clauses reversed, declarations before or after)")
    run.assumptions = GROUND_ASSUME + ["first-order families: only coherent programs (no two impls of a trait with unifiable heads); with overlapping impls "
                                       "(e.g. `impl T for B` next to `impl<X> T for X`) SLG's aggregated answer does depend on which answer arrives first "
                                       "(trivial-answer cut) -- such programs are rejected by the repository's coherence check and are outside the claim"]
    f, byid = fam(run, tier, (2, 3, 2, False, True), 400, (3, 3, 1, True, True), 8000)
    recs = gc.model_check(run, f, gc.goals_atoms, {"MaxOps": 1, "Kinds": ["solve"], "Invariants": ["ResultsCorrect"]}, "C13")
    gc.replay(run, recs, byid, [gc.SLG, gc.REC])
    rnd = random.Random(seed())
    def shuffled(p, natoms=4):
        items = ground.render_items(p, natoms)
        rnd.shuffle(items)
        return " ".join(items)
    gc.replay(run, recs, byid, [gc.SLG, gc.REC], render=shuffled, validate=True, check_steps=False, label="shuffled-items")
    import props_mini
    props_mini.order_first_order(run, tier)
    import props_order
    props_order.order_generic(run, tier)

# ------------------------------------------------------------------------------------------------

def corpus_run(run, tier, want):
    """Every (program, goals) block of /repo/tests under both solvers: each public call returns
    (watchdog), does not panic, and the SLG execution is a behaviour of SLG.tla."""
    cases = corpus.extract()
    listed = {f["match"]["test"] for f in run.findings if f["match"].get("src") == "corpus"}
    hangs = {f["match"]["test"] for f in run.findings if f["match"].get("src") == "corpus" and f["match"].get("what") == "abort-or-hang"}
    if tier == "quick":
        rnd = random.Random(seed())
        pick = set(rnd.sample(range(len(cases)), min(len(cases), 120)))
        cases = [c for i, c in enumerate(cases) if i in pick or c["name"] in listed]
    for solver in (gc.SLG, gc.REC):
        sname = gc.solver_name(solver)
        jobs = [{"id": i, "program": c["program"], "solver": solver, "trace": sname == "slg", "defs": False,
                 "ops": [{"op": "solve", "goal": g} for g in c["goals"]]} for i, c in enumerate(cases)]
        slow = [j for j, c in zip(jobs, cases) if sname != "slg" and c["name"] in hangs]
        slowids = {j["id"] for j in slow}
        fast = [j for j in jobs if j["id"] not in slowids]
        got = {o["id"]: o for o in harness.run("solve", fast, timeout=120)}
        # inputs listed as non-terminating are re-run on their own with a short watchdog
        got.update({o["id"]: o for o in harness.run("solve", slow, par=8, chunk=1, timeout=10)})
        traces = []
        for c, job in zip(cases, jobs):
            o = got[job["id"]]
            rp = {"test": c["file"] + ":" + c["name"], "program": c["program"], "solver": solver, "ops": job["ops"], "observed": o}
            run.case([c["program"], c["goals"], sname], nontrivial=bool(c["goals"]))
            err = o.get("error")
            if err and str(err).startswith("lowering"): continue
            if err:
                run.violation({"src": "corpus", "solver": sname, "what": "abort-or-hang", "test": c["name"]}, rp); continue
            bad = False
            for y in o["results"]:
                if y.get("class") == "Panic":
                    bad = True
                    run.violation({"src": "corpus", "solver": sname, "what": "panic", "test": c["name"], "text": y.get("text", "")[:60]}, rp)
            if sname == "slg" and not bad:
                traces.append(([e for e in o.get("events", []) if e["ev"] != "Def"], rp))
        if traces: gc.validate_traces(run, traces, "corpus")
    run.extra["corpus_cases"] = len(cases)

import props_mem  # noqa: E402  (registers C27)
import props_coh  # noqa: E402  (registers C19, C20)
import props_panic  # noqa: E402  (registers C12)
import props_terms  # noqa: E402  (registers C18, C25, C26)
import props_infer  # noqa: E402  (registers C14, C15, C16)
import props_sub  # noqa: E402  (registers C29)
import props_mini  # noqa: E402  (registers C01, C03, C04, C06, C28)
import props_builtin  # noqa: E402  (registers C07, C08, C21)
import props_text  # noqa: E402  (registers C22, C23, C24)
