"""C08 (BuiltinMC.tla), C07 (AssocMC.tla), C21 (WfMC.tla): verdict tables computed by TLC, replayed on the real solvers / checkers."""
import json, random
import tlc, harness, groundcheck as gc
from props import prop
from props_mem import run_tlc_mc
from common import seed, ToolError

B_DECLS = ("#[lang(sized)] trait Sized {} #[lang(copy)] trait Copy {} #[lang(clone)] trait Clone {} #[lang(tuple_trait)] trait Tuple {} #[lang(fn_ptr_trait)] trait FnPtr {} "
           "trait Tr {} struct Unit {} struct Bytes { len: u32, data: [u32] } struct Name { inner: str } struct Wrap { tag: u32, p: Bytes } "
           "struct Pair<T> { a: u32, last: T } struct Gen2<T> { first: T, last: u32 } enum En { A(u32), B(str) }")
B_IMPLS = {"cu": "impl Copy for u32 {} impl Copy for bool {}", "lu": "impl Clone for u32 {} impl Clone for bool {}",
           "cr": "impl<'a, T> Copy for &'a T {}", "lr": "impl<'a, T> Clone for &'a T {}", "cs": "impl Copy for Unit {}",
           "lp": "impl<T> Clone for Pair<T> where T: Clone {}"}

def bty(t):
    k, a = t["k"], t["a"]
    if k in ("u32", "bool", "str", "Unit", "Bytes", "Name", "Wrap", "En"): return k
    if k == "never": return "!"
    if k == "unit": return "()"
    if k == "dyn": return "dyn Tr + 'static"
    x = bty(a[0])
    if k == "slice": return "[%s]" % x
    if k == "array": return "[%s; 3]" % x
    if k == "tup1": return "(%s,)" % x
    if k == "tup2": return "(%s, %s)" % (x, bty(a[1]))
    if k == "ref": return "&'static %s" % x
    if k == "refmut": return "&'static mut %s" % x
    if k == "ptr": return "*const %s" % x
    if k == "fn": return "fn(%s) -> %s" % (x, bty(a[1]))
    if k in ("Pair", "Gen2"): return "%s<%s>" % (k, x)
    raise ValueError(k)

@prop("C08")
def c08(run, tier):
    run.rule = ("TLC enumerates (configuration of explicit impls, type, trait) over 318 types (scalars, str, !, (), slices, arrays, 1- and 2-tuples, & / &mut, raw "
                "pointers, fn pointers, dyn, structs with no / sized / unsized / generic last field, nested unsized struct, enum; two levels) x {Sized, Copy, Clone, "
                "Tuple, FnPtr} and checks ShapeOnly / Monotone on the structural rules of BuiltinMC.tla; for a seed-chosen set of configurations (thorough: all 64) "
                "every closed goal `T: Trait` is posed to both real solvers and must be answered Unique exactly when the rule says the trait holds, otherwise "
                "No possible solution; non-trivial = the type is not an atom; distinct = (configuration, type, trait, solver)")
    run.assumptions = ["explicit impls are limited to the six of BuiltinMC.tla; closures, coroutines, FnDef and foreign types are not in the grammar",
                       "programs are lowered without WF checking (tuples and structs with unsized non-last parts are legal inputs to the solver)",
                       "trusted: TLC, the renderer bty, the rules written in BuiltinMC.tla"]
    r = run_tlc_mc(run, "BuiltinMC", "SPECIFICATION Spec\nINVARIANTS ShapeOnly Monotone\nCHECK_DEADLOCK FALSE\n", "C08a", workers=8, timeout=1800)
    if r is None: return
    run.exhaustive = True
    # the REPLAY run: TLC prints the verdict table for the chosen configurations only
    rnd = random.Random(seed())
    allc = ["cu", "lu", "cr", "lr", "cs", "lp"]
    if tier == "thorough": chosen = None
    else: chosen = [sorted(rnd.sample(allc, k)) for k in (0, 2, 3, 4, 6)]
    cfgtext = "SPECIFICATION Spec\nINVARIANTS Replay\nCHECK_DEADLOCK FALSE\n"
    r = run_tlc_mc(run, "BuiltinMC", cfgtext, "C08b", workers=8, timeout=1800)
    if r is None: return
    recs = gc.parse_replay(r)
    if chosen is not None: recs = [x for x in recs if sorted(x["cfg"]) in chosen]
    bycfg = {}
    for x in recs: bycfg.setdefault(json.dumps(sorted(x["cfg"])), []).append(x)
    traits = ["Sized", "Copy", "Clone", "Tuple", "FnPtr"]
    for solver in (gc.SLG, gc.REC):
        sname = gc.solver_name(solver)
        jobs, meta = [], []
        for ck, xs in bycfg.items():
            prog = B_DECLS + " " + " ".join(B_IMPLS[c] for c in json.loads(ck))
            for i in range(0, len(xs), 40):
                part = xs[i:i + 40]
                ops = [{"op": "solve", "goal": "%s: %s" % (bty(x["t"]), tr), "fresh": True} for x in part for tr in traits]
                jobs.append({"id": len(jobs), "program": prog, "solver": solver, "ops": ops}); meta.append((ck, part))
        obs = harness.run("solve", jobs, timeout=300)
        for (ck, part), job, o in zip(meta, jobs, obs):
            if o.get("error"):
                run.case([ck, job["ops"][0]["goal"], sname]); run.violation({"solver": sname, "what": "abort-or-hang", "detail": str(o["error"])[:80]}, {"program": job["program"], "ops": job["ops"][:3]}); continue
            it = iter(o["results"])
            for x in part:
                for tr in traits:
                    rr = next(it); goal = "%s: %s" % (bty(x["t"]), tr)
                    run.case([ck, goal, sname], nontrivial=bool(x["t"]["a"]))
                    want = "Unique" if x["v"][tr] else "None"
                    rp = {"program": job["program"], "goal": goal, "solver": solver, "expected": want, "observed": rr}
                    if "error" in rr: raise ToolError("C08 goal does not parse: %s: %s" % (goal, rr["error"]))
                    if rr.get("class") != want:
                        run.violation({"solver": sname, "what": "built-in trait verdict differs from the structural rule", "trait": tr, "type": bty(x["t"])[:50],
                                       "expected": want, "observed": rr.get("class")}, rp)
                    else: run.traces += 1
                    if x["t"]["a"] and tr in ("Sized", "Copy") and x["v"][tr]: run.sample({"cfg": json.loads(ck), "goal": goal, "solver": sname, "rule": want, "impl": rr.get("class")}, cap=6)
    run.extra["configurations"] = len(bycfg)

# ------------------------------------------------------------------------------------ C07
A_IDS = {"Foo": 0, "Bar": 1, "Baz": 2, "V": 3}
def aty(t):
    k, a = t["k"], t["a"]
    if k in ("Foo", "Bar", "Baz", "T"): return k
    if k == "V": return "V<%s>" % aty(a[0])
    if k == "pE": return "<%s as Elem>::E" % aty(a[0])
    if k == "pA": return "<%s as Tr>::A" % aty(a[0])
    raise ValueError(k)

def aterm(t):
    """closed normal form -> abstract term as the harness projects it"""
    if t["k"] == "V": return {"k": "adt", "n": 3, "m": 0, "a": [aterm(t["a"][0])]}
    return {"k": "adt", "n": A_IDS[t["k"]], "m": 0, "a": []}

def render_assoc(impls):
    out = ["struct Foo {} struct Bar {} struct Baz {} struct V<T> {} trait Elem { type E; } trait Tr { type A; }",
           "impl Elem for Foo { type E = Bar; } impl Elem for Bar { type E = Foo; } impl<T> Elem for V<T> { type E = T; }"]
    for im in sorted(impls, key=lambda i: i["head"]):
        if im["head"] == "V": out.append("impl<T> Tr for V<T> { type A = %s; }" % aty(im["val"]))
        else: out.append("impl Tr for %s { type A = %s; }" % (im["head"], aty(im["val"])))
    return " ".join(out)

YS = [{"k": "Foo", "a": []}, {"k": "Bar", "a": []}, {"k": "Baz", "a": []}, {"k": "V", "a": [{"k": "Foo", "a": []}]}, {"k": "V", "a": [{"k": "Bar", "a": []}]}]

@prop("C07")
def c07(run, tier):
    run.rule = ("TLC enumerates every coherent program of AssocMC.tla (1-3 impls of `Tr` with heads Foo / Bar / V<T> and 12 kinds of associated-type values incl. the "
                "parameter, projections of it through another trait and through Tr itself, also below a type constructor; fixed impls of `Elem`) x 7 concrete self "
                "types and computes NormSem (invariants Direct, NoImplNoValue); both real solvers answer `exists<U> { Normalize(<X as Tr>::A -> U) }` and "
                "`X: Tr<A = Y>` for 5 candidate Y: a Unique type must be NormSem(X), `No possible solution` only when no impl applies (resp. Y is not the value), "
                "definite guidance must have the value as an instance, Unique `X: Tr<A = Y>` only for Y = NormSem(X); non-trivial = the value of the applicable "
                "impl contains a projection; distinct = (program, X, goal, solver)")
    run.assumptions = ["`forall` variants of the goals and associated types with bounds are not enumerated", "one associated type per trait; self types of depth <= 2",
                       "trusted: TLC, the renderer render_assoc, NormSem of AssocMC.tla"]
    stride = 1 if tier == "thorough" else 4
    r = run_tlc_mc(run, "AssocMC", "SPECIFICATION Spec\nINVARIANTS Direct NoImplNoValue Replay\nCHECK_DEADLOCK FALSE\n", "C07", workers=8, timeout=1800)
    if r is None: return
    run.exhaustive = tier == "thorough"
    recs = [x for x in gc.parse_replay(r) if x["norm"]["k"] not in ("DIVERGE", "STUCK")]
    byprog = {}
    for x in recs: byprog.setdefault(json.dumps(sorted(x["impls"], key=lambda i: i["head"]), sort_keys=True), []).append(x)
    keys = sorted(byprog)
    if stride > 1: keys = [k for i, k in enumerate(keys) if i % stride == seed() % stride]
    for solver in (gc.SLG, gc.REC):
        sname = gc.solver_name(solver)
        jobs = []
        for i, k in enumerate(keys):
            ops = []
            for x in byprog[k]:
                ops.append({"op": "solve", "goal": "exists<U> { Normalize(<%s as Tr>::A -> U) }" % aty(x["x"]), "fresh": True})
                for y in YS: ops.append({"op": "solve", "goal": "%s: Tr<A = %s>" % (aty(x["x"]), aty(y)), "fresh": True})
            jobs.append({"id": i, "program": render_assoc(json.loads(k)), "solver": solver, "detail": True, "ops": ops})
        obs = harness.run("solve", jobs, timeout=300)
        for k, job, o in zip(keys, jobs, obs):
            if o.get("error"):
                run.case([k, sname]); run.violation({"solver": sname, "what": "abort-or-hang", "detail": str(o["error"])[:80]}, {"program": job["program"]}); continue
            it = iter(zip(job["ops"], o["results"]))
            for x in byprog[k]:
                norm = x["norm"]; has = norm["k"] != "NONE"
                applicable = [im for im in json.loads(k) if im["head"] == ("V" if x["x"]["k"] == "V" else x["x"]["k"])]
                nontrivial = bool(applicable) and "p" in json.dumps(applicable[0]["val"])
                op, rr = next(it)
                def viol(what, **kw): return run.violation(dict({"solver": sname, "what": what, "x": aty(x["x"]), "value": aty(norm) if has else "none"}, **kw),
                                                           {"program": job["program"], "goal": op["goal"], "solver": solver, "expected_value": norm, "observed": rr})
                run.case([k, op["goal"], sname], nontrivial=nontrivial)
                if "error" in rr: raise ToolError("C07 goal does not parse: %s: %s" % (op["goal"], rr["error"]))
                cls = rr.get("class"); bad = False
                if cls == "Panic": bad = viol("panic", text=rr.get("text", "")[:60])
                elif cls == "None" and has: bad = viol("No possible solution for a normalization that has a value")
                elif cls == "Unique":
                    got = (rr.get("detail") or {}).get("subst", [None])[0]
                    if not has: bad = viol("normalizes although no impl applies")
                    elif got != aterm(norm): bad = viol("normalizes to a type that is not the impl's value", observed=rr.get("text", "")[:80])
                elif cls == "Definite" and has:
                    import props_mini
                    got = (rr.get("detail") or {}).get("subst", [None])[0]
                    if got is not None and not props_mini.matches(aterm(norm), got, {}): bad = viol("definite guidance excludes the value", observed=rr.get("text", "")[:80])
                if not bad: run.traces += 1
                if nontrivial: run.sample({"program": job["program"][150:], "goal": op["goal"], "solver": sname, "value": aty(norm) if has else None, "impl": rr.get("text")}, cap=6)
                for y in YS:
                    op, rr = next(it)
                    run.case([k, op["goal"], sname], nontrivial=nontrivial)
                    if "error" in rr: raise ToolError("C07 goal does not parse: %s: %s" % (op["goal"], rr["error"]))
                    cls = rr.get("class"); eq = has and json.dumps(y, sort_keys=True) == json.dumps(norm, sort_keys=True)
                    rp = {"program": job["program"], "goal": op["goal"], "solver": solver, "expected_value": norm, "observed": rr}
                    if cls == "Unique" and not eq: run.violation({"solver": sname, "what": "associated-type equality accepts a type that is not the value", "goal": op["goal"]}, rp)
                    elif cls == "None" and eq: run.violation({"solver": sname, "what": "associated-type equality rejects the value", "goal": op["goal"]}, rp)
                    elif cls == "Panic": run.violation({"solver": sname, "what": "panic", "goal": op["goal"], "text": rr.get("text", "")[:60]}, rp)
                    else: run.traces += 1
    run.extra["programs"] = len(keys)

# ------------------------------------------------------------------------------------ C21
def fty(f):
    return {"SetT": "Set<T>", "SetU": "Set<U>", "T": "T", "U": "U", "SetA": "Set<A>", "SetB": "Set<B>", "SetSetT": "Set<Set<T>>"}[f]

def render_wf(p):
    out = ["trait Hash {}", "trait Eq%s {}" % (" where Self: Hash" if p["eqSuper"] else ""), "struct A {}", "struct B {}",
           "struct Set<T>%s {}" % (" where T: Hash" if p["setBound"] else "")]
    wcs = [w for w, on in (("T: Hash", p["hT"]), ("U: Hash", p["hU"])) if on]
    out.append("struct Holder<T, U>%s { %s }" % ((" where " + ", ".join(wcs)) if wcs else "", ", ".join("f%d: %s" % (i, fty(f)) for i, f in enumerate(p["fields"]))))
    if p["hashA"]: out.append("impl Hash for A {}")
    if p["hashB"]: out.append("impl Hash for B {}")
    if p["hashSet"]: out.append("impl<T> Hash for Set<T>%s {}" % (" where T: Hash" if p["hashSet"] == 2 else ""))
    if p["eqA"]: out.append("impl Eq for A {}")
    if p["eqB"]: out.append("impl Eq for B {}")
    if p["eqSet"]: out.append("impl<T> Eq for Set<T>%s {}" % (" where T: Hash" if p["eqSet"] == 2 else ""))
    return " ".join(out)

def sample_wf(n, rnd):
    kinds = ["SetT", "SetU", "T", "U", "SetA", "SetB", "SetSetT"]
    out, seen = [], set()
    while len(out) < n:
        p = {"setBound": rnd.random() < 0.8, "eqSuper": rnd.random() < 0.6, "hashA": rnd.random() < 0.7, "hashB": rnd.random() < 0.4,
             "hashSet": rnd.choice([0, 1, 2, 2]), "eqA": rnd.random() < 0.5, "eqB": rnd.random() < 0.3, "eqSet": rnd.choice([0, 1, 2]),
             "hT": rnd.random() < 0.5, "hU": rnd.random() < 0.4, "fields": [rnd.choice(kinds) for _ in range(rnd.choice([1, 2, 3, 3]))]}
        k = json.dumps(p, sort_keys=True)
        if k in seen: continue
        seen.add(k); out.append(p)
    return out

@prop("C21")
def c21(run, tier):
    import os
    run.rule = ("programs of WfMC.tla's family (supertrait bound on/off, struct where-clause on/off, struct with up to three fields of seven kinds incl. repeated and "
                "nested ones and any subset of its where-clauses, impls with / without the bounds they need) are sampled by seed; TLC computes Sound(P) -- the "
                "property's statement evaluated on all concrete types of the bounded universe -- and Accepts(P), and checks CheckerSound (Accepts => Sound); the real "
                "checked_program() under both solvers must not accept a program with ~Sound(P) and must not panic; acceptance of a program the specification's "
                "Accepts rejects (or the converse) is counted but is not a violation by itself; non-trivial = ~Sound(P) or the program is accepted; distinct = (program, solver)")
    run.assumptions = ["no auto traits, built-in traits or associated types; concrete types of depth <= 2 over A, B, Set<_>, Holder<_, _>",
                       "trusted: TLC, the renderer render_wf, the meaning (Hash / Eq / WfTy) of WfMC.tla"]
    n = 4000 if tier == "thorough" else 500
    progs = sample_wf(n, random.Random(seed() * 23 + 11))
    os.makedirs(tlc.WORK, exist_ok=True)
    inp = os.path.join(tlc.WORK, "inputs_C21.ndjson")
    with open(inp, "w") as f:
        for p in progs: f.write(json.dumps(p) + "\n")
    r = run_tlc_mc(run, "WfMC", "SPECIFICATION Spec\nINVARIANTS CheckerSound Replay\nCHECK_DEADLOCK FALSE\n", "C21", env={"INPUTS": inp}, workers=8, timeout=1800)
    if r is None: return
    os.unlink(inp)
    recs = gc.parse_replay(r)
    differ = 0
    for solver in (gc.SLG, gc.REC):
        sname = gc.solver_name(solver)
        jobs = [{"id": i, "program": render_wf(x["p"]), "solver": solver, "queries": ["checked"]} for i, x in enumerate(recs)]
        obs = harness.run("lower", jobs, timeout=300)
        for x, job, o in zip(recs, jobs, obs):
            rp = {"program": job["program"], "solver": solver, "spec": {"accepts": x["accepts"], "sound": x["sound"], "part1": x["sound1"], "part2": x["sound2"]}, "observed": o}
            if o.get("error"):
                run.case([job["program"], sname]); run.violation({"solver": sname, "what": "abort-or-hang", "detail": str(o["error"])[:80]}, rp); continue
            res = o["results"]["checked"]
            accepted = res["r"] == "ok"
            run.case([job["program"], sname], nontrivial=(not x["sound"]) or accepted)
            if res["r"] == "panic":
                run.violation({"solver": sname, "what": "checked_program panics", "text": res["text"][:80]}, rp); continue
            if res["r"] == "err" and "well-formedness" not in res["text"]:
                raise ToolError("C21 program rejected for another reason: %s: %s" % (job["program"], res["text"]))
            if accepted and not x["sound"]:
                run.violation({"solver": sname, "what": "an accepted program breaks the guarantee of well-formedness checking",
                               "part": "supertrait bound" if not x["sound1"] else "field type of a well-formed struct instance"}, rp)
            else: run.traces += 1
            if accepted != x["accepts"]: differ += 1
            if not x["sound"]: run.sample({"program": job["program"][60:], "solver": sname, "sound": False, "accepted": accepted, "error": res["text"][:70]}, cap=6)
    run.extra["programs"] = len(recs); run.extra["verdicts_differing_from_the_specifications_checker_model"] = differ
