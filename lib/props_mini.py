"""C01 / C03 / C04 / C06 / C28 on the first-order fragment (MiniMC.tla): the meaning of a program computed by TLC,
the real solvers' answers judged against it."""
import os, json, random
import tlc, harness, groundcheck as gc
from props import prop
from props_mem import run_tlc_mc
from common import seed, ToolError

D = 3
GOALS = ["A: T1", "V<B>: T2", "V<V<A>>: T1", "not { A: T1 }", "not { V<B>: T2 }",
         "forall<X> { X: T1 }", "forall<X> { V<X>: T2 }",
         "forall<X> { if (X: T2) { X: T1 } }", "forall<X> { if (X: T1) { V<X>: T2 } }", "forall<X> { if (X: T2) { V<V<X>>: T1 } }",
         "forall<X> { if (X: T1; X: T2) { V<X>: T1 } }",
         "exists<X> { X: T1 }", "exists<X> { V<X>: T2 }", "exists<X> { X: T1, X: T2 }", "exists<X> { X: T1, V<X>: T2 }",
         "exists<X> { X = V<A>, X: T1 }", "exists<X> { V<X>: T1, not { A: T2 } }", "exists<X> { V<V<X>>: T1 }",
         "exists<X> { X: T2 }", "exists<X> { X: T3 }",
         "forall<X, Y> { if (X: T1; Y: T2) { X: T3 } }", "forall<X, Y> { if (X: T1; Y: T2) { Y: T3 } }",
         "forall<X, Y> { if (X: T1; Y: T2) { X: T2 } }", "forall<X> { X: T3 }", "forall<X> { if (X: T3) { X: T1 } }"]
OPEN_GOALS = (12, 13, 14, 15, 16, 17, 18, 19, 20)

def impl_universe(traits=(1, 2), bases="AB"):
    u = []
    for tr in traits:
        for d in (0, 1):
            for b in bases:
                u.append({"tr": tr, "d": d, "b": b, "wc": 0, "e": 0, "wb": "A"})
                for w in traits:
                    for wb in bases:
                        for e in range(d + 1): u.append({"tr": tr, "d": d, "b": b, "wc": w, "e": e, "wb": wb})
            u.append({"tr": tr, "d": d, "b": "X", "wc": 0, "e": 0, "wb": "A"})
            for w in traits:
                for e in range(d + 1): u.append({"tr": tr, "d": d, "b": "X", "wc": w, "e": e, "wb": "A"})
    return u

def vty(d, b): return "V<" * d + b + ">" * d

def render_mini(p):
    out = ["struct A {}", "struct B {}", "struct V<T> {}", "struct C {}", "struct E {}"]
    for t in (1, 2, 3):
        sup = [s[1] for s in p["super"] if s[0] == t]
        out.append("%strait T%d%s {}" % ("#[coinductive] " if t in p["co"] else "", t, (" where " + ", ".join("Self: T%d" % s for s in sup)) if sup else ""))
    for im in p["impls"]:
        if im["b"] == "X":
            wc = " where %s: T%d" % (vty(im["e"], "X"), im["wc"]) if im["wc"] else ""
            out.append("impl<X> T%d for %s%s {}" % (im["tr"], vty(im["d"], "X"), wc))
        else:
            wc = " where %s: T%d" % (vty(im["e"], im["wb"]), im["wc"]) if im["wc"] else ""
            out.append("impl T%d for %s%s {}" % (im["tr"], vty(im["d"], im["b"]), wc))
    return " ".join(out)

def sample_programs(n, rnd, with_super, chain_share=0.35):
    """two shapes: `generic` programs (<= 3 impls over A, B with generic impls) and `chain` programs (3..6 impls over the closed structs
    A, B, C, E whose where-clauses mention other closed types: finite solution sets, mutual recursion through several tables)"""
    ug = impl_universe((1, 2, 3) if with_super else (1, 2), "AB")
    uc = [im for im in impl_universe((1, 2), "ABCE") if im["b"] != "X" and im["d"] == 0]
    progs, seen = [], set()
    tries = 0
    while len(progs) < n and tries < 50 * n:
        tries += 1
        if rnd.random() < chain_share and not with_super:
            k = rnd.choice([3, 4, 5, 6])
            impls = [dict(rnd.choice(uc)) for _ in range(k)]
            if rnd.random() < 0.5: impls.append(dict(rnd.choice(ug)))
        else:
            k = rnd.choice([1, 2, 2, 3, 3, 3])
            impls = [dict(rnd.choice(ug)) for _ in range(k)]
        co = sorted(rnd.sample([1, 2], rnd.choice([0, 0, 0, 1, 2])))
        sup = []
        if with_super:
            allp = [[1, 2], [2, 1], [1, 3], [2, 3], [3, 1]]
            sup = rnd.sample(allp, rnd.choice([0, 1, 2, 2, 3]))
        p = {"impls": impls, "co": co, "super": sup}
        key = json.dumps(p, sort_keys=True)
        if key in seen: continue
        seen.add(key); progs.append(p)
    return progs

# ---- patterns: V^k<leaf> with leaf in A, B or a variable index
def pat_of(t):
    """abstract term (adt 0 = A, 1 = B, 2 = V<_>, bound var) -> (k, leaf) or None if it is something else"""
    k = 0
    while t["k"] == "adt" and t["n"] == 2 and len(t["a"]) == 1: t = t["a"][0]; k += 1
    if t["k"] == "adt" and t["n"] in (0, 1, 3, 4) and not t["a"]: return (k, {0: "A", 1: "B", 3: "C", 4: "E"}[t["n"]])
    if t["k"] == "bound" and t["n"] == 0: return (k, t["m"])
    return None

def is_instance(sol, pat):
    k, leaf = pat
    if isinstance(leaf, int): return sol["d"] >= k
    return sol["d"] == k and sol["b"] == leaf

def instances(pat, maxd):
    k, leaf = pat
    if isinstance(leaf, int): return [{"d": d, "b": b} for d in range(k, maxd + 1) for b in "ABCE"]
    return [{"d": k, "b": leaf}] if k <= maxd else []

def model_check(run, progs, tag):
    os.makedirs(tlc.WORK, exist_ok=True)
    inp = os.path.join(tlc.WORK, "inputs_%s.ndjson" % tag)
    with open(inp, "w") as f:
        for p in progs: f.write(json.dumps(p) + "\n")
    cfg = "SPECIFICATION Spec\nCONSTANTS\n  D = %d\n  FromFile = TRUE\nINVARIANTS ModelClosed ModelSupported Replay\nCHECK_DEADLOCK FALSE\n" % D
    r = run_tlc_mc(run, "MiniMC", cfg, tag, env={"INPUTS": inp}, workers=10, timeout=3000)
    if r is None: return None
    os.unlink(inp)
    recs = [x for x in gc.parse_replay(r) if not x["mixed"]]
    byprog = {}
    for x in recs: byprog.setdefault(json.dumps({"impls": x["impls"], "co": sorted(x["co"]), "super": [list(s) for s in x["super"]]}, sort_keys=True), {})[x["gi"]] = x
    return byprog

def co_generic(p):
    """a #[coinductive] trait has a generic impl with a where-clause: the fragment in which the engines' handling of non-ground
    coinductive cycles is defective on the pinned tree (known findings KF9 / KF10)"""
    return any(im["b"] == "X" and im["wc"] and im["tr"] in p["co"] for im in p["impls"])

MAX_CO_GENERIC_REC = 10      # jobs of the recursive solver in the fragment where it is known to overflow its stack (each abort costs ~20 s)

def solve_all(byprog, solver, multi=False):
    """returns {program key: (program text, {goal index: {"solve": result, "multi": result} or {"error": ..}})}"""
    jobs, meta = [], []
    for k in byprog:
        p = json.loads(k)
        text = render_mini(p)
        gis = sorted(byprog[k])
        groups = [[g] for g in gis] if co_generic(p) else [gis]       # isolate goals where an abort is a known possibility
        if co_generic(p) and solver["kind"] != "slg":
            groups = [g for g in groups if g[0] in OPEN_GOALS][:2] if sum(1 for (kk, _) in meta if co_generic(json.loads(kk))) < MAX_CO_GENERIC_REC else []
        for grp in groups:
            ops = []
            for gi in grp:
                ops.append({"op": "solve", "goal": GOALS[gi - 1], "fresh": True})
                if multi and gi in OPEN_GOALS: ops.append({"op": "multi", "goal": GOALS[gi - 1], "fresh": True, "max": 12})
            jobs.append({"id": len(jobs), "program": text, "solver": solver, "detail": True, "ops": ops}); meta.append((k, grp))
    obs = harness.run("solve", jobs, timeout=300)
    out = {}
    for (k, grp), job, o in zip(meta, jobs, obs):
        text, res = out.setdefault(k, (job["program"], {}))
        if o.get("error"):
            for gi in grp: res[gi] = {"error": str(o["error"])}
            continue
        it = iter(o["results"])
        for gi in grp:
            res[gi] = {"solve": next(it)}
            if multi and gi in OPEN_GOALS: res[gi]["multi"] = next(it)
    return out

def judge_c01(run, rec, r, base, rp):
    """the C01 statement on one answer; returns True if a violation was recorded"""
    cls = r.get("class")
    if cls == "Panic" and "Negative subgoal had delayed_subgoals" in r.get("text", "") and base.get("fragment") != "co-generic":
        return run.violation({"solver": "slg", "deviation": "SLG_NegativeOnDelayedAnswer", "what": "panic"}, rp)
    if cls == "Panic" or "error" in r:
        return run.violation(dict(base, what="panic or goal error", text=str(r.get("text", r.get("error")))[:80]), rp)
    if rec["closed"]:
        if cls == "Unique" and not rec["truth"]: return run.violation(dict(base, what="Unique for a goal that does not hold", goal=rec["goal"]), rp)
        if cls == "None" and rec["truth"]: return run.violation(dict(base, what="No possible solution for a goal that holds", goal=rec["goal"]), rp)
        return False
    sols = rec["sols"]
    if cls == "None":
        if sols: return run.violation(dict(base, what="No possible solution although the goal has solutions", goal=rec["goal"]), rp)
        return False
    if cls in ("Unique", "Definite"):
        d = r.get("detail") or {}
        if len(d.get("subst", [])) != 1: return run.violation(dict(base, what="malformed answer", goal=rec["goal"]), rp)
        pat = pat_of(d["subst"][0])
        if pat is None: return run.violation(dict(base, what="answer outside the fragment's types", goal=rec["goal"]), rp)
        missing = [s for s in sols if not is_instance(s, pat)]
        if missing:
            return run.violation(dict(base, what="%s answer excludes a solution" % ("Unique" if cls == "Unique" else "definite guidance of an ambiguous"), goal=rec["goal"],
                                      ), rp)
        if cls == "Unique":
            wrong = [t for t in instances(pat, rec["soldepth"]) if t not in sols]
            if wrong: return run.violation(dict(base, what="Unique answer has an instance that is not a solution", goal=rec["goal"]), rp)
    return False

def mini_assume():
    return ["programs: structs A, B, V<_>; two traits, each ordinary or #[coinductive]; <= 3 impls `impl Tr for V^d<A|B> [where A: Tr']` / `impl<X> Tr for V^d<X> [where V^e<X>: Tr']`, d <= 1, e <= d; supertrait declarations for C06",
            "18 fixed goal shapes (closed, forall, if with one or two hypotheses, not, exists with one unknown, conjunction, equality); Herbrand universe of depth <= 3 (exact: where-clauses never mention a larger type than the impl head)",
            "programs are seed-sampled from the family (about 1 M members); programs with a cycle through an ordinary and a coinductive trait are skipped",
            "trusted: TLC, the renderer render_mini, the meaning Model (mu over ordinary / nu over coinductive traits) of MiniMC.tla"]

@prop("C01")
def c01(run, tier):
    run.rule = ("TLC computes, for each sampled program of MiniMC.tla and each of 18 goal shapes, the truth value (closed goals) or the complete set of "
                "solutions up to the depth bound (goals with an unknown), checking ModelClosed / ModelSupported; both real solvers (fresh instance per goal) "
                "are judged: Unique / None on closed goals must equal the truth; on open goals None requires an empty solution set, a Unique substitution "
                "must have exactly the solutions as its instances (within the bound), definite guidance must cover every solution; "
                "a second family (ImplMC.tla): coherent programs over two closed and two generic structs, 3..7 impls with up to two where-clauses, "
                "blanket impls: 10 closed goals against the least fixed point and 14 goals with an unknown against their solutions among the closed "
                "types of depth <= 3 (None needs an empty set, a Unique / definite pattern must cover every solution); "
                "non-trivial = the program has a generic impl or a where-clause; distinct = (program, goal, solver)")
    run.assumptions = mini_assume()
    n = 1500 if tier == "thorough" else 160
    byprog = model_check(run, sample_programs(n, random.Random(seed() * 7 + 1), False), "C01")
    if byprog is None: return
    for solver in (gc.SLG, gc.REC):
        sname = gc.solver_name(solver)
        for k, (text, res) in solve_all(byprog, solver).items():
            p = json.loads(k)
            nontrivial = any(im["b"] == "X" or im["wc"] for im in p["impls"])
            base = {"solver": sname, "fragment": "co-generic" if co_generic(p) else "plain"}
            for gi, rec in byprog[k].items():
                if gi not in res: continue           # not run (budget for the known-overflowing fragment)
                run.case([k, gi, sname], nontrivial=nontrivial)
                rp = {"program": text, "goal": rec["goal"], "solver": solver, "expected": {"truth": rec["truth"], "solutions": rec["sols"]}, "observed": res[gi]}
                if "error" in res[gi]:
                    run.violation(dict(base, what="abort-or-hang", detail=res[gi]["error"][:60]), rp); continue
                r = res[gi]["solve"]
                if not judge_c01(run, rec, r, base, rp): run.traces += 1
                if nontrivial and not rec["closed"] and rec["sols"]:
                    run.sample({"program": text[40:], "goal": rec["goal"], "solver": sname, "solutions": [vty(s["d"], s["b"]) for s in rec["sols"]][:6], "impl": r.get("text")}, cap=6)
    run.extra["programs"] = len(byprog)
    # coherent programs over two generic structs (ImplMC.tla): closed goals against the least fixed point, goals with an unknown against their
    # solutions among the closed types of depth <= 3
    import props_order
    props_order.order_generic(run, tier, nperm=1, n=(200 if tier == "quick" else 2500), tag="C01impl", salt=19)
    # structured propositional programs: the truth of every atom comes from the ground engine model's meaning (SLGGroundMC, TrueAtoms);
    # conjunctions with negation of closed atoms are judged compositionally
    import ground
    sm = ground.smoke(); sbyid = {p["id"]: p for p in sm}
    recs = gc.model_check(run, sm, gc.goals_atoms, {"MaxOps": 1, "Kinds": ["solve"], "MaxEvents": 600, "Invariants": ["ResultsCorrect"]}, "C01s")
    truth = {}
    for r in recs:
        for x in r["results"]: truth.setdefault(r["id"], {})[x["goal"]] = (x["truth"] == "Unique")
    def gt(a): return "S%s: T%s" % (a[1:], a[1:])
    for solver in (gc.SLG, gc.REC):
        sname = gc.solver_name(solver)
        jobs, meta = [], []
        for p in sm:
            ats = [a for a in ("a1", "a2", "a3", "a4")]
            tv = truth.get(p["id"], {})
            goals = [(gt(a) + ", not { " + gt(b) + " }", tv.get(a, False) and not tv.get(b, False)) for a in ats[:3] for b in ats if a != b] + \
                    [(gt(a) + ", " + gt(b), tv.get(a, False) and tv.get(b, False)) for a in ats[:3] for b in ats if a < b]
            jobs.append({"id": len(jobs), "program": ground.render(p, 4), "solver": solver, "detail": True, "ops": [{"op": "solve", "goal": g, "fresh": True} for g, _ in goals]}); meta.append(goals)
        for goals, job, o in zip(meta, jobs, harness.run("solve", jobs, timeout=120)):
            if o.get("error"):
                run.case([job["program"], sname]); run.violation({"solver": sname, "src": "smoke", "what": "abort-or-hang"}, {"program": job["program"]}); continue
            for (g, tv), r in zip(goals, o["results"]):
                run.case([job["program"], g, sname], nontrivial=True)
                rec = {"closed": True, "truth": tv, "goal": g, "sols": []}
                if not judge_c01(run, rec, r, {"solver": sname, "fragment": "plain", "src": "smoke"}, {"program": job["program"], "goal": g, "solver": solver, "expected_truth": tv, "observed": r}):
                    run.traces += 1

# ------------------------------------------------------------------------------------ C06
@prop("C06")
def c06(run, tier):
    run.rule = ("same meaning and programs as C01 but with supertrait declarations (`trait T1 where Self: T2`, both directions, also cyclic); the goals "
                "`forall<X> { if (H) { G } }` with one and two hypotheses are interleaved on ONE solver instance with the same G without hypotheses and with closed "
                "goals; Model(p, hyps) adds the hypotheses and their supertrait consequences as facts; a real answer must be Unique iff G follows, and the goals "
                "without hypotheses must be answered as on a fresh solver (no leakage); non-trivial = the program declares a supertrait; distinct = (program, goal, solver)")
    run.assumptions = mini_assume() + ["struct where-clauses (implied bounds from types) are not in the family"]
    n = 900 if tier == "thorough" else 140
    byprog = model_check(run, sample_programs(n, random.Random(seed() * 11 + 3), True), "C06")
    if byprog is None: return
    order = [8, 6, 21, 24, 9, 7, 22, 10, 1, 23, 11, 6, 25, 12, 24, 3]          # hypothetical goals alternate with their hypothesis-free versions on one solver
    for solver in (gc.SLG, gc.REC):
        sname = gc.solver_name(solver)
        keys = [k for k in byprog if not co_generic(json.loads(k))]
        jobs = [{"id": i, "program": render_mini(json.loads(k)), "solver": solver, "detail": True,
                 "ops": [{"op": "solve", "goal": GOALS[g - 1]} for g in order]} for i, k in enumerate(keys)]
        obs = harness.run("solve", jobs, timeout=300)
        for k, job, o in zip(keys, jobs, obs):
            p = json.loads(k)
            base = {"solver": sname, "fragment": "plain"}
            if o.get("error"):
                run.case([k, sname]); run.violation(dict(base, what="abort-or-hang", detail=str(o["error"])[:60]), {"program": job["program"], "observed": o}); continue
            for g, r in zip(order, o["results"]):
                rec = byprog[k][g]
                run.case([k, g, sname], nontrivial=bool(p["super"]))
                rp = {"program": job["program"], "history": [GOALS[x - 1] for x in order], "goal": rec["goal"], "solver": solver,
                      "expected": {"truth": rec["truth"], "solutions": rec["sols"]}, "observed": r}
                bad = judge_c01(run, rec, r, base, rp)
                if not bad and rec["closed"] and r.get("class") not in ("Unique", "None"):
                    bad = run.violation(dict(base, what="hypothetical / closed goal is not decided", goal=rec["goal"], observed=r.get("class")), rp)
                if not bad: run.traces += 1
                if p["super"] and g in (8, 9, 10, 11, 21, 22, 23, 25): run.sample({"program": job["program"][40:], "goal": rec["goal"], "solver": sname, "follows": rec["truth"], "impl": r.get("text")}, cap=6)
    run.extra["programs"] = len(byprog)

# ------------------------------------------------------------------------------------ C03
def subst_pat(detail):
    if not detail or len(detail.get("subst", [])) != 1: return None
    return pat_of(detail["subst"][0])

@prop("C03")
def c03(run, tier):
    run.rule = ("for each sampled program and each goal with an unknown, TLC gives the complete solution set up to the depth bound; the real SLG solve_multiple "
                "stream (up to 12 answers) is judged: every Definite answer's instances are solutions, no answer is yielded twice, if the solution set is finite "
                "(no solution at the two largest depths) and the stream ended by itself every solution is an instance of some answer, and the `more` flag of "
                "each answer tells whether another answer followed; second family (ImplMC.tla, coherent programs over two generic structs): streams of 14 goals "
                "with an unknown (up to 40 answers) judged the same way against the solutions among the closed types of depth <= 3; "
                "non-trivial = the solution set is not empty; distinct = (program, goal)")
    run.assumptions = mini_assume() + ["streams are cut after 12 answers; completeness is judged whenever the stream ends by itself"]
    n = 2500 if tier == "thorough" else 500
    byprog = model_check(run, sample_programs(n, random.Random(seed() * 13 + 5), False), "C03")
    if byprog is None: return
    byprog = {k: v for k, v in byprog.items() if not co_generic(json.loads(k))}
    for k, (text, res) in solve_all(byprog, gc.SLG, multi=True).items():
        for gi, rec in byprog[k].items():
            if gi not in OPEN_GOALS: continue
            sols = rec["sols"]
            run.case([k, gi], nontrivial=bool(sols))
            rp = {"program": text, "goal": rec["goal"], "expected_solutions": sols, "observed": res.get(gi)}
            if "error" in res[gi]:
                run.violation({"what": "abort-or-hang", "detail": res[gi]["error"][:60]}, rp); continue
            m = res[gi]["multi"]
            if m.get("class") == "Panic" and "Negative subgoal had delayed_subgoals" in m.get("text", ""):
                run.violation({"solver": "slg", "deviation": "SLG_NegativeOnDelayedAnswer", "what": "panic"}, rp); continue
            if m.get("class") == "Panic":
                run.violation({"what": "solve_multiple panics", "text": m.get("text", "")[:80]}, rp); continue
            items = m.get("items", [])
            bad = False
            pats = []
            for it in items:
                if it["kind"] == "Floundered": pats.append(None); continue
                pats.append(subst_pat(it.get("detail")))
            # soundness of definite answers
            for it, pat in zip(items, pats):
                if it["kind"] == "Definite":
                    if pat is None: bad |= run.violation({"what": "answer outside the fragment's types", "goal": rec["goal"]}, rp); continue
                    wrong = [t for t in instances(pat, rec["soldepth"]) if t not in sols]
                    if wrong: bad |= run.violation({"what": "an enumerated answer has an instance that is not a solution", "goal": rec["goal"]}, rp)
            # duplicates
            texts = [it["text"] for it in items if it["kind"] != "Floundered"]
            if len(set(texts)) != len(texts): bad |= run.violation({"what": "an answer is yielded twice", "goal": rec["goal"]}, rp)
            # flag accuracy
            for j, it in enumerate(items):
                followed = j + 1 < len(items)
                if m.get("class") == "Done" and it["more"] != followed:
                    bad |= run.violation({"what": "`more answers follow` flag is wrong", "goal": rec["goal"], "index": j, "flag": it["more"]}, rp); break
            # completeness for finite solution sets
            # a stream that ended by itself claims to be complete, whether the solution set is finite or not
            if m.get("class") == "Done" and not any(it["kind"] == "Floundered" for it in items):
                lost = [s for s in sols if not any(p is not None and is_instance(s, p) for p in pats)]
                if lost: bad |= run.violation({"what": "a solution is never yielded", "goal": rec["goal"], "lost": [vty(s["d"], s["b"]) for s in lost][:3]}, rp)
            if not bad: run.traces += 1
            if sols: run.sample({"program": text[40:], "goal": rec["goal"], "solutions": [vty(s["d"], s["b"]) for s in sols][:6], "stream": [[it["kind"], it["text"], it["more"]] for it in items][:6]}, cap=6)
    run.extra["programs"] = len(byprog)
    import props_order
    props_order.streams_generic(run, tier)

# ------------------------------------------------------------------------------------ C04 / C28
def mask_lts(t):
    """lifetimes are not compared by C04 (they are related through constraints)"""
    if isinstance(t, list): return [mask_lts(x) for x in t]
    if isinstance(t, dict):
        if str(t.get("k", "")).startswith("l"): return {"k": "lt"}
        return {k: mask_lts(v) for k, v in t.items()}
    return t

def compat(a, b):
    """the C04 statement on two results (class, pattern); returns a description of the contradiction or None"""
    ca, cb = a.get("class"), b.get("class")
    if {ca, cb} == {"None", "Unique"}: return "one solver says No possible solution, the other Unique"
    if ca == "Unique" and cb == "Unique":
        if json.dumps(mask_lts((a.get("detail") or {}).get("subst"))) != json.dumps(mask_lts((b.get("detail") or {}).get("subst"))): return "two Unique answers carry different substitutions"
    for x, y in ((a, b), (b, a)):
        if x.get("class") == "Unique" and y.get("class") == "Definite":
            px, py = (x.get("detail") or {}).get("subst"), (y.get("detail") or {}).get("subst")
            if px is not None and py is not None and not all(matches(u, v, {}) for u, v in zip(px, py)): return "a Unique substitution is not an instance of the other solver's definite guidance"
    return None

def matches(t, pat, env):
    """is term t an instance of pattern pat (unknowns of pat = bound variables; lifetimes ignored)"""
    if pat["k"] in ("bound", "cbound"):
        key = (pat["k"], pat["m"])
        if key in env: return json.dumps(env[key], sort_keys=True) == json.dumps(t, sort_keys=True)
        env[key] = t; return True
    if pat["k"].startswith("l") or t["k"].startswith("l"): return True
    if t["k"] != pat["k"] or t.get("n") != pat.get("n") or t.get("m") != pat.get("m") or len(t["a"]) != len(pat["a"]): return False
    return all(matches(x, y, env) for x, y in zip(t["a"], pat["a"]))

def wf_answer(nvars, kinds, detail, max_universe):
    """C28 on one structured answer; returns a description of the defect or None"""
    if detail is None: return None
    subst, binders = detail.get("subst", []), detail.get("binders", [])
    if len(subst) != nvars: return "substitution has %d entries for %d unknowns of the query" % (len(subst), nvars)
    def sort(t): return "lt" if t["k"].startswith("l") else ("const" if t["k"] in ("cval", "cinfer", "cph", "cbound") else "ty")
    for t, kd in zip(subst, kinds):
        if sort(t) != kd: return "entry of kind %s for an unknown of kind %s" % (sort(t), kd)
    def walk(t):
        if t["k"] in ("bound", "lbound", "cbound"):
            if t["n"] != 0 or t["m"] >= len(binders): return "refers to a variable the solution does not bind"
        if t["k"] in ("infer", "linfer", "cinfer"): return "contains a free inference variable"
        if t["k"] in ("ph", "lph", "cph") and t["n"] > max_universe: return "placeholder of universe %d, the query names universes <= %d" % (t["n"], max_universe)
        for x in t["a"]:
            if not isinstance(x, dict): continue
            r = walk(x)
            if r: return r
        return None
    for t in subst:
        r = walk(t)
        if r: return r
    for b in binders:
        if b["u"] > max_universe: return "binder in universe %d, the query names universes <= %d" % (b["u"], max_universe)
    return None

NEG_CYCLE_TESTS = {"negative_loop", "negative_answer_ambiguous", "example_3_3_EWFS", "example_2_3_EWFS", "contradiction", "coinductive_wrapper"}

def corpus_jobs(tier, rnd, solver, quick_n=140):
    import corpus
    cases = [c for c in corpus.extract() if c["goals"] and c["name"] not in NEG_CYCLE_TESTS]
    if tier == "quick":
        pick = set(rnd.sample(range(len(cases)), min(len(cases), quick_n)))
        cases = [c for i, c in enumerate(cases) if i in pick]
    jobs = [{"id": i, "program": c["program"], "solver": solver, "detail": True,
             "ops": [{"op": "solve", "goal": g, "fresh": True} for g in c["goals"]]} for i, c in enumerate(cases)]
    return cases, jobs

NEG_CYCLE_TESTS = {"negative_loop", "negative_answer_ambiguous", "example_3_3_EWFS", "example_2_3_EWFS", "contradiction", "coinductive_wrapper"}

@prop("C04")
def c04(run, tier):
    run.rule = ("differential: every (program, goal) is solved by a fresh SLG and a fresh recursive solver and the two answers are compared with the C04 relation "
                "(never None vs Unique, equal Unique substitutions, a Unique substitution is an instance of the other's definite guidance); inputs: the sampled "
                "programs of MiniMC.tla x 25 goal shapes (TLC also supplies the meaning, so the culprit of a contradiction is known) and the (program, goal) "
                "blocks extracted from the repository's tests (all language features); non-trivial = at least one solver gives a definite answer; "
                "distinct = (program, goal)")
    run.assumptions = mini_assume() + ["lifetime constraints are not compared", "corpus: test blocks whose program is non-stratified (documented panics / hangs) are excluded, they are C09's"]
    rnd = random.Random(seed() * 17 + 7)
    n = 1200 if tier == "thorough" else 150
    byprog = model_check(run, sample_programs(n, rnd, True), "C04")
    if byprog is None: return
    a = solve_all(byprog, gc.SLG); b = solve_all(byprog, gc.REC)
    for k in byprog:
        p = json.loads(k)
        frag = "co-generic" if co_generic(p) else "plain"
        for gi, rec in byprog[k].items():
            ra, rb = a.get(k, (None, {}))[1].get(gi), b.get(k, (None, {}))[1].get(gi)
            if ra is None or rb is None: continue
            run.case([k, gi], nontrivial=any(("solve" in x and x["solve"].get("class") in ("Unique", "None", "Definite")) for x in (ra, rb)))
            rp = {"program": a[k][0], "goal": rec["goal"], "slg": ra, "recursive": rb, "meaning": {"truth": rec["truth"], "solutions": rec["sols"]}}
            if "error" in ra or "error" in rb:
                run.violation({"fragment": frag, "solver": "slg" if "error" in ra else "rec", "what": "abort-or-hang"}, rp); continue
            sa, sb = ra["solve"], rb["solve"]
            if sa.get("class") == "Panic" or sb.get("class") == "Panic":
                txt = (sa if sa.get("class") == "Panic" else sb).get("text", "")
                if "Negative subgoal had delayed_subgoals" in txt and frag != "co-generic": run.violation({"solver": "slg", "deviation": "SLG_NegativeOnDelayedAnswer", "what": "panic"}, rp)
                else: run.violation({"fragment": frag, "solver": "slg" if sa.get("class") == "Panic" else "rec", "what": "panic or goal error", "text": txt[:70]}, rp)
                continue
            c = compat(sa, sb)
            if c: run.violation({"fragment": frag, "what": c, "goal": rec["goal"], "slg": sa.get("class"), "rec": sb.get("class")}, rp)
            else: run.traces += 1
    # structured propositional programs (cycles with late-failing heads, readers of provisional results) x conjunctions with negation
    import ground
    sm = ground.smoke()
    def gt(a): return "S%s: T%s" % (a[1:], a[1:])
    sgoals = [gt(a) for a in ("a1", "a2", "a3", "a4")] + ["%s, not { %s }" % (gt(a), gt(b)) for a in ("a1", "a2", "a3") for b in ("a1", "a2", "a3", "a4") if a != b] + \
             ["%s, %s" % (gt(a), gt(b)) for a in ("a2", "a3") for b in ("a1", "a4")]
    sjobs = [{"id": i, "program": ground.render(p, 4), "solver": gc.SLG, "detail": True, "ops": [{"op": "solve", "goal": g, "fresh": True} for g in sgoals]} for i, p in enumerate(sm)]
    xa = harness.run("solve", sjobs, timeout=120); xb = harness.run("solve", [dict(j, solver=gc.REC) for j in sjobs], timeout=120)
    for p, job, x, y in zip(sm, sjobs, xa, xb):
        if x.get("error") or y.get("error"):
            run.case([job["program"], "*"]); run.violation({"src": "smoke", "what": "abort-or-hang", "solver": "slg" if x.get("error") else "rec"}, {"program": job["program"]}); continue
        for g, sa, sb in zip(sgoals, x["results"], y["results"]):
            run.case([job["program"], g], nontrivial=True)
            rp = {"program": job["program"], "goal": g, "slg": sa, "recursive": sb}
            if sa.get("class") == "Panic" or sb.get("class") == "Panic":
                txt = (sa if sa.get("class") == "Panic" else sb).get("text", "")
                if "Negative subgoal had delayed_subgoals" in txt: run.violation({"solver": "slg", "deviation": "SLG_NegativeOnDelayedAnswer", "what": "panic"}, rp)
                else: run.violation({"src": "smoke", "what": "panic", "text": txt[:70]}, rp)
                continue
            cc = compat(sa, sb)
            if cc: run.violation({"src": "smoke", "what": cc, "goal": g, "slg": sa.get("class"), "rec": sb.get("class")}, rp)
            else: run.traces += 1
    # corpus
    cases, jobs = corpus_jobs(tier, rnd, gc.SLG)
    oa = harness.run("solve", jobs, timeout=120)
    ob = harness.run("solve", [dict(j, solver=gc.REC) for j in jobs], timeout=120, par=8)
    for c, x, y in zip(cases, oa, ob):
        if c["name"] in NEG_CYCLE_TESTS: continue
        if x.get("error") or y.get("error"):
            if str(x.get("error") or y.get("error")).startswith("lowering"): continue
            run.case([c["program"], "*"]); run.violation({"src": "corpus", "test": c["name"], "what": "abort-or-hang", "solver": "slg" if x.get("error") else "rec"}, {"test": c["name"], "slg": x.get("error"), "rec": y.get("error")}); continue
        for g, sa, sb in zip(c["goals"], x["results"], y["results"]):
            if "error" in sa or "error" in sb: continue
            run.case([c["program"], g], nontrivial=any(z.get("class") in ("Unique", "None", "Definite") for z in (sa, sb)))
            rp = {"test": c["file"] + ":" + c["name"], "program": c["program"], "goal": g, "slg": sa, "recursive": sb}
            if sa.get("class") == "Panic" or sb.get("class") == "Panic":
                run.violation({"src": "corpus", "test": c["name"], "what": "panic", "solver": "slg" if sa.get("class") == "Panic" else "rec"}, rp); continue
            cc = compat(sa, sb)
            if cc: run.violation({"src": "corpus", "test": c["name"], "what": cc, "goal": g[:80]}, rp)
            else: run.traces += 1
            if sa.get("class") == "Unique" and (sa.get("detail") or {}).get("subst"): run.sample({"test": c["name"], "goal": g, "slg": sa.get("text"), "recursive": sb.get("text")}, cap=6)
    run.extra["programs"] = len(byprog); run.extra["corpus_blocks"] = len(cases)

@prop("C28", "exploration")
def c28(run, tier):
    run.rule = ("every solution returned for the sampled MiniMC.tla programs x 25 goal shapes, for goals with lifetime / constant unknowns and nested forall over a fixed "
                "program, and for the (program, goal) blocks of the repository's tests, by both solvers (and every answer of the SLG enumeration) is checked against "
                "WellFormedAnswer: one entry per unknown of the query (reported by the harness from the u-canonical goal), same kind, only variables bound by the "
                "solution's own binders, no free inference variable, no placeholder or binder universe above the query's; non-trivial = the answer has a "
                "substitution entry; distinct = (program, goal, solver)")
    run.assumptions = mini_assume() + ["WellFormedAnswer is evaluated by the driver on the structured answer the harness projects (harness/src/solver.rs solution_detail)"]
    rnd = random.Random(seed() * 19 + 9)
    extra_prog = ("struct A {} struct B {} struct V<T> {} struct L<'a> {} struct K<const N> {} trait T1 {} trait T2<'a> {} trait T3<const N> {} "
                  "impl T1 for A {} impl<T> T1 for V<T> where T: T1 {} impl<'a> T2<'a> for L<'a> {} impl<'a> T2<'a> for A {} impl<const N> T3<N> for K<N> {} impl T3<3> for A {} "
                  "trait M {} impl<T> M for T {} trait Same<T> {} impl<T> Same<T> for T {}")
    extra_goals = ["exists<'a> { L<'a>: T2<'a> }", "exists<'a, T> { T: T2<'a> }", "forall<'b> { exists<'a> { L<'b>: T2<'a> } }", "exists<const N> { K<N>: T3<N> }",
                   "exists<const N, T> { T: T3<N> }", "forall<const M> { exists<const N> { K<M>: T3<N> } }", "forall<T> { exists<U> { V<T> = U } }",
                   "forall<T> { exists<U> { if (T: T1) { U: T1 } } }", "exists<T> { forall<U> { V<T> = V<U> } }", "forall<'a> { forall<T> { exists<'b, U> { V<U> = V<T>, L<'b> = L<'a> } } }",
                   "forall<T> { forall<const N> { exists<const M> { T = T, K<M> = K<N> } } }", "exists<T, U> { T = V<U>, U: T1 }",
                   # an unknown introduced under a `forall` that is not at the head of the goal (the forall sits behind a conjunction)
                   "exists<T> { T: M, forall<'b> { exists<'a> { T = L<'a> } } }", "exists<T> { T: M, forall<U> { exists<W> { T = V<W> } } }",
                   "exists<T> { T: M, forall<const N> { exists<const P> { T = K<P> } } }", "exists<T> { T: M, forall<'b> { exists<'a> { L<'a>: Same<T> } } }",
                   "exists<T> { T: M, forall<U> { exists<W> { V<W>: Same<T> } } }", "exists<T, U> { T: M, forall<'b> { exists<'a> { T = V<U>, U = L<'a> } } }",
                   "exists<T> { A: M, forall<'b> { T = L<'b> } }", "exists<T> { A: M, forall<U> { exists<W> { T = V<W>, W: M } } }",
                   "exists<'x> { A: M, forall<'b> { exists<'a> { L<'x> = L<'a> } } }", "exists<T> { T: M, forall<'b> { forall<'c> { exists<'a> { T = L<'a> } } } }"]
    n = 900 if tier == "thorough" else 120
    byprog = model_check(run, sample_programs(n, rnd, False), "C28")
    if byprog is None: return
    def check(o, sname, what, program, goal):
        for r in ([o] + [dict(class_="item", detail=it.get("detail"), query=o.get("query")) for it in o.get("items", [])]):
            q = r.get("query") or o.get("query")
            d = r.get("detail")
            if q is None: continue
            run.case([program, goal, sname, what, json.dumps(d)[:80]], nontrivial=bool(d and d.get("subst")))
            if r.get("class") == "Panic":
                if "Negative subgoal had delayed_subgoals" in r.get("text", ""): run.violation({"solver": "slg", "deviation": "SLG_NegativeOnDelayedAnswer", "what": "panic"}, {"program": program, "goal": goal})
                else: run.violation({"solver": sname, "src": what, "what": "panic", "text": r.get("text", "")[:70], "goal": goal[:70]}, {"program": program, "goal": goal, "observed": r})
                continue
            bad = wf_answer(len(q["binders"]), [("ty" if b["kind"] in ("ty", "int", "float") else b["kind"]) for b in q["binders"]], d, q["universes"] - 1)
            if bad: run.violation({"solver": sname, "src": what, "what": "returned solution is not well-formed for its query: " + bad, "goal": goal[:70]}, {"program": program, "goal": goal, "observed": r})
            else: run.traces += 1
            if d and d.get("subst"): run.sample({"goal": goal, "solver": sname, "answer": o.get("text") or "(enumerated)", "query_binders": q["binders"]}, cap=6)
    for solver in (gc.SLG, gc.REC):
        sname = gc.solver_name(solver)
        for k, (text, res) in solve_all(byprog, solver, multi=(sname == "slg")).items():
            for gi, rr in res.items():
                if "error" in rr: continue           # aborts are C01's / C09's business
                check(rr["solve"], sname, "mini", text, GOALS[gi - 1])
                if "multi" in rr: check(rr["multi"], sname, "mini-multi", text, GOALS[gi - 1])
        ops = []
        for g in extra_goals:
            ops.append({"op": "solve", "goal": g, "fresh": True})
            if sname == "slg": ops.append({"op": "multi", "goal": g, "fresh": True, "max": 6})
        o = harness.run("solve", [{"id": 0, "program": extra_prog, "solver": solver, "detail": True, "ops": ops}], timeout=120)[0]
        if o.get("error"): run.violation({"solver": sname, "src": "fixed", "what": "abort-or-hang", "detail": str(o["error"])[:60]}, {"program": extra_prog})
        else:
            for op, r in zip(ops, o["results"]):
                if "error" in r: raise ToolError("fixed C28 goal does not parse: %s: %s" % (op["goal"], r["error"]))
                check(r, sname, "fixed", extra_prog, op["goal"])
        cases, jobs = corpus_jobs(tier, random.Random(seed() * 19 + 9), solver)
        for c, o in zip(cases, harness.run("solve", jobs, timeout=120, par=8)):
            if c["name"] in NEG_CYCLE_TESTS or o.get("error"): continue
            for g, r in zip(c["goals"], o["results"]):
                if "error" in r or r.get("class") == "Panic": continue
                check(r, sname, "corpus:" + c["name"], c["program"], g)
    run.extra["programs"] = len(byprog)

# ------------------------------------------------------------------------------------ C13 (first-order part)
def render_perm(p, order, decls_last):
    """render_mini with the impls in the given order and, optionally, the struct / trait declarations after them"""
    q = dict(p, impls=[p["impls"][i] for i in order])
    items = render_mini(q).split("} ")
    items = [x if x.endswith("}") else x + "}" for x in items]
    structs = [x for x in items if x.startswith("struct")]       # kept first: the answers are read through the ADT ids
    decls = [x for x in items if not x.startswith("impl") and not x.startswith("struct")]
    impls = [x for x in items if x.startswith("impl")]
    return " ".join(structs + (impls + decls if decls_last else decls + impls))

def sample_rich(n, rnd):
    """4..6 impls over A, B, V<_> and three traits, generic and blanket impls weighted up (cycles with non-ground heads)"""
    ug = impl_universe((1, 2, 3), "AB")
    gen = [im for im in ug if im["b"] == "X"]
    progs, seen = [], set()
    while len(progs) < n:
        k = rnd.choice([4, 5, 5, 6])
        impls = [dict(rnd.choice(gen if rnd.random() < 0.6 else ug)) for _ in range(k)]
        co = sorted(rnd.sample([1, 2, 3], rnd.choice([0, 0, 0, 0, 1])))
        p = {"impls": impls, "co": co, "super": []}
        key = json.dumps(p, sort_keys=True)
        if key in seen: continue
        seen.add(key); progs.append(p)
    return progs

def mini_coherent(p):
    """no two impls of a trait with unifiable heads (the repository's overlap check): only then is declaration order claimed irrelevant"""
    def overlap(a, b):
        if a["b"] != "X" and b["b"] != "X": return a["d"] == b["d"] and a["b"] == b["b"]
        if a["b"] == "X" and b["b"] == "X": return True
        g, c = (a, b) if a["b"] == "X" else (b, a)
        return c["d"] >= g["d"]
    ims = p["impls"]
    return not any(ims[i]["tr"] == ims[j]["tr"] and overlap(ims[i], ims[j]) for i in range(len(ims)) for j in range(i + 1, len(ims)))

def order_first_order(run, tier):
    """MiniMC programs: the meaning is a function of the SET of impls; every sampled declaration order must give the same answers
    (and the right ones) under both solvers"""
    rnd = random.Random(seed() * 13 + 3)
    n = 60 if tier == "quick" else 500
    nperm = 6 if tier == "quick" else 12
    progs = [p for p in sample_programs(3 * n, rnd, False) + sample_rich(6 * n, rnd) if mini_coherent(p)][:n]
    byprog = model_check(run, progs, "C13")
    if byprog is None: return
    keys = list(byprog)
    gis = list(range(1, len(GOALS) + 1))
    nd = 0
    for solver in (gc.SLG, gc.REC):
        sname = gc.solver_name(solver)
        jobs, meta = [], []
        for k in keys:
            p = json.loads(k)
            if co_generic(p): continue                          # KF9 / KF10 fragment: judged by C01 / C04
            m = len(p["impls"])
            orders = [list(range(m)), list(reversed(range(m)))]
            while len(orders) < min(nperm, max(2, m * (m - 1))):
                o = list(range(m)); rnd.shuffle(o)
                if o not in orders: orders.append(o)
            for j, o in enumerate(orders):
                jobs.append({"id": len(jobs), "program": render_perm(p, o, j % 2 == 1), "solver": solver, "detail": True, "limits": True,
                             "ops": [{"op": "solve", "goal": GOALS[gi - 1], "fresh": True} for gi in gis]})
                meta.append((k, o))
        obs = harness.run("solve", jobs, timeout=300)
        first = {}
        for (k, o), job, ob in zip(meta, jobs, obs):
            base = {"solver": sname, "fragment": "plain", "src": "order"}
            if ob.get("error"):
                run.case([k, o, sname]); run.violation(dict(base, what="abort-or-hang"), {"program": job["program"], "solver": solver, "observed": ob}); continue
            for gi, r in zip(gis, ob["results"]):
                rec = byprog[k][gi]
                run.case([k, o, gi, sname], nontrivial=(o != sorted(o)))
                rp = {"program": job["program"], "goal": rec["goal"], "solver": solver, "order": o, "observed": r}
                if judge_c01(run, rec, r, base, rp): continue
                if r.get("limits", 0) > 0: continue           # the property's proviso: the search ran into a size limit
                ref = first.setdefault((k, gi), (r.get("text"), job["program"]))
                if r.get("text") != ref[0]:
                    nd += 1
                    run.violation(dict(base, what="answer depends on the declaration order", goal=rec["goal"]),
                                  dict(rp, other_order_program=ref[1], other_order_answer=ref[0]))
                else: run.traces += 1
    run.extra["first_order_programs"] = len(keys)
    run.extra["first_order_orders_per_program"] = nperm
