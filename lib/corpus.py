"""Extract (program, goals) pairs from the `test! { program {..} goal {..} .. }` blocks of
/repo/tests (the fixed corpus of DESIGN.md 3.5)."""
import os, re, json

def _balanced(text, i):
    """text[i] == '{' -> index just after the matching '}'"""
    depth = 0
    j = i
    while j < len(text):
        c = text[j]
        if c == '{': depth += 1
        elif c == '}':
            depth -= 1
            if depth == 0: return j + 1
        elif c == '"':
            j += 1
            while j < len(text) and text[j] != '"':
                j += 2 if text[j] == '\\' else 1
        elif text.startswith("//", j):
            k = text.find("\n", j)
            j = k if k >= 0 else len(text)
            continue
        j += 1
    return len(text)

def extract(root="/repo/tests"):
    cases = []
    for dp, dn, fn in sorted(os.walk(root)):
        for f in sorted(fn):
            if not f.endswith(".rs"): continue
            path = os.path.join(dp, f)
            text = open(path).read()
            for m in re.finditer(r"\btest!\s*\{", text):
                end = _balanced(text, m.end() - 1)
                body = text[m.end():end - 1]
                pm = re.search(r"\bprogram\s*\{", body)
                if not pm: continue
                pend = _balanced(body, pm.end() - 1)
                program = body[pm.end():pend - 1]
                goals = []
                for gm in re.finditer(r"\bgoal\s*\{", body[pend:]):
                    gs = pend + gm.end() - 1
                    ge = _balanced(body, gs)
                    goals.append(" ".join("\n".join(l.split("//")[0] for l in body[gs + 1:ge - 1].splitlines()).split()))
                # strip rust line comments inside the program
                program = "\n".join(l.split("//")[0] for l in program.splitlines())
                line = text.count("\n", 0, m.start()) + 1
                # name of enclosing fn
                fm = list(re.finditer(r"fn\s+(\w+)\s*\(", text[:m.start()]))
                name = fm[-1].group(1) if fm else "?"
                cases.append({"file": os.path.relpath(path, "/repo"), "line": line, "name": name,
                              "program": " ".join(program.split()), "goals": goals})
    return cases

if __name__ == "__main__":
    c = extract()
    print(len(c), "test blocks,", sum(len(x["goals"]) for x in c), "goals")
    json.dump(c, open("/verif/work/corpus.json", "w"), indent=0)
