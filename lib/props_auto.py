"""C05 at the first-order level (AutoMC.tla): auto traits over ADTs with fields, generic ADTs, enums, phantom data, the built-in
type constructors, explicit positive / negative impls and hypotheses.  TLC computes the greatest-fixed-point meaning of every
goal; the real solvers answer the same goals as one history on one solver instance."""
import json, random
import harness, groundcheck as gc
from props_mem import run_tlc_mc
from common import seed, ToolError

def N(c): return {"c": c, "a": []}
def U(c, x): return {"c": c, "a": [x]}
def B(c, x, y): return {"c": c, "a": [x, y]}
T = N("T")
CLOSED = [N("S1"), N("S2"), N("S3")]

def show(t):
    c, a = t["c"], t["a"]
    if c in ("S1", "S2", "S3", "F", "T", "P", "Q"): return c
    if c == "u32": return "u32"
    if c == "str": return "str"
    if c in ("G", "H", "Ph"): return "%s<%s>" % (c, show(a[0]))
    if c == "slice": return "[%s]" % show(a[0])
    if c == "array": return "[%s; 3]" % show(a[0])
    if c == "ref": return "&'static %s" % show(a[0])
    if c == "mref": return "&'static mut %s" % show(a[0])
    if c == "raw": return "*const %s" % show(a[0])
    if c == "tup": return "(%s, %s)" % (show(a[0]), show(a[1]))
    if c == "fn": return "fn(%s) -> ()" % show(a[0])
    raise ValueError(c)

def has(t, c): return t["c"] == c or any(has(x, c) for x in t["a"])
def tdepth(t):
    """depth at which the pattern variable occurs (-1: not at all)"""
    if t["c"] == "T": return 0
    d = max([tdepth(x) for x in t["a"]] or [-1])
    return d + 1 if d >= 0 else -1

def field_pool(generic):
    base = CLOSED + [N("u32"), N("F")]
    if generic:
        # fields of G<T> / H<T>: never a larger instance of a generic ADT than the one being defined (finite reachability)
        return [T, T, U("ref", T), U("raw", T), U("slice", T), B("tup", T, N("S3")), U("fn", T), U("Ph", T), N("S1"), N("S2"), N("u32"),
                U("G", T), U("H", T), U("array", T), U("mref", T)]
    out = list(base) + CLOSED
    for s in CLOSED:
        out += [U("G", s), U("H", s), U("ref", s), U("raw", s), U("slice", s), U("fn", s), U("Ph", s), B("tup", s, N("u32")), U("G", U("G", s)),
                U("H", U("G", s)), U("G", U("ref", s)), B("tup", U("G", s), s)]
    return out

HEADS = [N("S1"), N("S2"), N("S3"), U("G", T), U("G", N("S1")), U("H", T), U("H", N("S2")), U("G", U("G", T)), U("slice", T), U("ref", T),
         B("tup", T, N("u32")), B("tup", N("S1"), N("S2")), N("u32"), U("Ph", T), T, U("raw", N("S1")), N("F")]
WCS = [T, T, U("ref", T), U("G", T), N("S1"), N("S2"), N("S3"), U("H", N("S1"))]

def sample_program(rnd, pid):
    fields = {}
    for s in ("S1", "S2", "S3"):
        fields[s] = [rnd.choice(field_pool(False)) for _ in range(rnd.choice((0, 1, 1, 2, 2, 3)))]
    for s in ("G", "H1", "H2"):
        fields[s] = [rnd.choice(field_pool(True)) for _ in range(rnd.choice((0, 1, 1, 2)))]
    impls = []
    for _ in range(rnd.choice((0, 1, 1, 2, 2, 3))):
        head = rnd.choice(HEADS)
        pos = rnd.random() < 0.6
        im = {"tr": rnd.choice((1, 1, 2)), "pos": pos, "head": head, "wc": []}
        if pos and rnd.random() < 0.5:
            wc = rnd.choice(WCS)
            # the where-clause never mentions a larger type than the head does (finite reachability)
            if tdepth(wc) > tdepth(head): wc = rnd.choice(CLOSED)
            im["wc"] = [{"tr": rnd.choice((im["tr"], im["tr"], 3 - im["tr"])), "ty": wc}]
        if head == T and not pos: continue                      # `impl<T> !AT for T` says nothing in the model's terms
        impls.append(im)
    # goals: the closed ADTs, instances of the generic ones and built-in constructors over them; some under a hypothesis on P
    pool = list(CLOSED)
    for s in CLOSED + [N("u32"), N("F")]:
        pool += [U("G", s), U("H", s)]
    for s in CLOSED:
        pool += [U("ref", s), U("slice", U("G", s)), B("tup", s, N("u32")), B("tup", N("S1"), s), U("G", U("G", s)), U("Ph", s), U("fn", s),
                 U("raw", U("H", s)), U("array", s), U("G", U("ref", s)), U("H", U("G", s)), U("mref", s)]
    pool += [N("u32"), N("F"), U("G", N("F")), U("Ph", N("F")), U("fn", N("F"))]
    goals = []
    for _ in range(9):
        goals.append({"tr": rnd.choice((1, 1, 2)), "ty": rnd.choice(pool), "hyp": []})
    P = N("P")
    for _ in range(3):
        ty = rnd.choice([P, U("G", P), U("H", P), U("ref", P), B("tup", P, N("u32")), U("G", U("G", P)), U("Ph", P), B("tup", N("S1"), P)])
        tr = rnd.choice((1, 2))
        hyp = rnd.choice([[], [{"tr": tr, "ty": P}], [{"tr": tr, "ty": P}], [{"tr": 3 - tr, "ty": P}], [{"tr": tr, "ty": U("G", P)}]])
        goals.append({"tr": tr, "ty": ty, "hyp": hyp})
    rnd.shuffle(goals)
    return {"id": pid, "fields": fields, "impls": impls, "goals": goals}

def render(p):
    out = ["#[auto] trait AT1 {}", "#[auto] trait AT2 {}", "extern type F;", "#[phantom_data] struct Ph<T> {}"]
    def flds(fs): return ", ".join("f%d: %s" % (i, show(f)) for i, f in enumerate(fs))
    for s in ("S1", "S2", "S3"): out.append("struct %s { %s }" % (s, flds(p["fields"][s])))
    out.append("struct G<T> { %s }" % flds(p["fields"]["G"]))
    out.append("enum H<T> { V1 { %s }, V2 { %s }, V3 }" % (flds(p["fields"]["H1"]), flds(p["fields"]["H2"])))
    for im in p["impls"]:
        gen = "<T>" if has(im["head"], "T") else ""
        wc = " where %s: AT%d" % (show(im["wc"][0]["ty"]), im["wc"][0]["tr"]) if im["wc"] else ""
        out.append("impl%s %sAT%d for %s%s {}" % (gen, "" if im["pos"] else "!", im["tr"], show(im["head"]), wc))
    return " ".join(out)

def render_goal(g):
    body = "%s: AT%d" % (show(g["ty"]), g["tr"])
    if g["hyp"]:
        body = "if (%s) { %s }" % ("; ".join("%s: AT%d" % (show(h["ty"]), h["tr"]) for h in g["hyp"]), body)
    if has(g["ty"], "P") or any(has(h["ty"], "P") for h in g["hyp"]):
        body = "forall<P> { %s }" % body
    return body

def generic_wc(p):
    """the fragment of KF9/KF10: an explicit generic impl of a (coinductive) auto trait with a where-clause"""
    return any(has(im["head"], "T") and im["wc"] for im in p["impls"])

CFG = """SPECIFICATION Spec
INVARIANTS ExplicitDecides FixedPointEquation Independent Replay
CHECK_DEADLOCK FALSE
"""

def auto_first_order(run, tier, n_quick=400, n_thorough=6000):
    rnd = random.Random(seed() * 7919 + 5)
    n = n_quick if tier == "quick" else n_thorough
    progs = [sample_program(rnd, i) for i in range(n)]
    import os, tlc
    from concurrent.futures import ThreadPoolExecutor
    os.makedirs(tlc.WORK, exist_ok=True)
    CH = 200                                                   # TLC re-reads the input file per initial state: keep the files small
    chunks = [progs[i:i + CH] for i in range(0, len(progs), CH)]
    def mc(k):
        inp = os.path.join(tlc.WORK, "inputs_C05auto_%d.ndjson" % k)
        with open(inp, "w") as f:
            for p in chunks[k]: f.write(json.dumps(p) + "\n")
        out = run_tlc_mc(run, "AutoMC", CFG, "C05auto%d" % k, {"INPUTS": inp}, timeout=1500, workers=2, xmx="3g")
        os.unlink(inp)
        return out
    with ThreadPoolExecutor(max_workers=6) as ex: outs = list(ex.map(mc, range(len(chunks))))
    if any(o is None for o in outs): return
    recs = {r["id"]: r for o in outs for r in gc.parse_replay(o)}
    if len(recs) != len(progs): raise ToolError("AutoMC: %d records for %d programs" % (len(recs), len(progs)))
    ncyc = 0
    for solver in (gc.SLG, gc.REC, gc.RECNC):
        sname = gc.solver_name(solver)
        jobs = [{"id": p["id"], "program": render(p), "solver": solver, "trace": sname == "slg", "defs": False,
                 "ops": [{"op": "solve", "goal": render_goal(g)} for g in p["goals"]]} for p in progs]
        obs = harness.run("solve", jobs, timeout=300)
        for p, job, o in zip(progs, jobs, obs):
            r = recs[p["id"]]
            rp = {"program": job["program"], "solver": solver, "ops": job["ops"], "expected": r["truth"], "cyclic": r["cyclic"], "observed": o}
            run.case([job["program"], [x["goal"] for x in job["ops"]], sname], nontrivial=bool(p["impls"]) or any(r["cyclic"]))
            frag = {"fragment": "auto-generic-wc"} if generic_wc(p) else {}
            if o.get("error"):
                if str(o["error"]).startswith("lowering"): raise ToolError("AutoMC program does not lower: %s: %s" % (job["program"], o["error"]))
                run.violation(dict(frag, solver=sname, render="auto-fo", what="abort-or-hang"), rp); continue
            for j, (want, cyc, y) in enumerate(zip(r["truth"], r["cyclic"], o["results"])):
                if sname == "slg": ncyc += bool(cyc)
                exp = "Unique" if want else "None"
                if y.get("class") == exp: continue
                rpj = dict(rp, goal=job["ops"][j]["goal"], goal_index=j)
                if y.get("class") == "Panic":
                    run.violation(dict(frag, solver=sname, render="auto-fo", what="panic", text=str(y.get("text", ""))[:60]), rpj)
                elif sname == "slg" and gc.invalid_answer_in_op(o, j):
                    run.violation({"solver": "slg", "deviation": "SLG_RootSkipsDelayedAnswer", "what": "answer contradicts the program's meaning",
                                   "expected": exp, "observed": y.get("class")}, rpj)
                else:
                    run.violation(dict(frag, solver=sname, render="auto-fo", what="auto trait result differs from the greatest-fixed-point meaning",
                                       expected=exp, observed=y.get("class")), rpj)
            run.sample({"program": job["program"], "goals": [x["goal"] for x in job["ops"]], "solver": sname,
                        "expected": r["truth"], "impl": [y.get("class") for y in o["results"]]}, cap=4)
    run.extra["auto_first_order_programs"] = len(progs)
    run.extra["auto_first_order_goals_resting_on_cycles"] = ncyc
