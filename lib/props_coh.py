"""C19 (Coherence.tla) and C20 (Orphan.tla)."""
import os, json, random, itertools
import tlc, harness, groundcheck as gc
from props import prop
from props_mem import run_tlc_mc
from common import seed, ToolError

SLG = {"kind": "slg", "max_size": 10}
REC = {"kind": "rec", "overflow": 100, "cache": True, "max_size": 30}

# ------------------------------------------------------------------ C19
def impl_universe(maxd):
    u = []
    for d in range(maxd + 1):
        for b in "TAB":
            for wc in (["none", "Bar"] if b == "T" else ["none"]):
                for pos in (True, False):
                    u.append({"d": d, "b": b, "wc": wc, "pos": pos})
    return u

def ty_text(d, b):
    return "V<" * d + b + ">" * d

def render_coh(p):
    out = ["#[marker] trait Foo {}" if p["marker"] else "trait Foo {}", "trait Bar {}", "struct A {}", "struct B {}", "struct V<T> {}"]
    for x in sorted(p["bar"]): out.append("impl Bar for %s {}" % x)
    for im in p["impls"]:
        gen = "<T>" if im["b"] == "T" else ""
        wc = " where T: Bar" if im["wc"] == "Bar" else ""
        out.append("impl%s %sFoo for %s%s {}" % (gen, "" if im["pos"] else "!", ty_text(im["d"], im["b"]), wc))
    return " ".join(out)

FIXED_COH = [
    # chains of three / four specializing impls (panicked on the pinned tree: fixed: F1)
    {"impls": [{"d": 0, "b": "T", "wc": "none", "pos": True}, {"d": 1, "b": "T", "wc": "none", "pos": True}, {"d": 1, "b": "A", "wc": "none", "pos": True}], "bar": [], "marker": False},
    {"impls": [{"d": 1, "b": "A", "wc": "none", "pos": True}, {"d": 0, "b": "T", "wc": "none", "pos": True}, {"d": 1, "b": "T", "wc": "none", "pos": True}], "bar": [], "marker": False},
    {"impls": [{"d": 0, "b": "T", "wc": "none", "pos": True}, {"d": 1, "b": "T", "wc": "none", "pos": True}, {"d": 2, "b": "T", "wc": "none", "pos": True}, {"d": 2, "b": "B", "wc": "none", "pos": True}], "bar": [], "marker": False},
    {"impls": [{"d": 2, "b": "B", "wc": "none", "pos": True}, {"d": 1, "b": "B", "wc": "none", "pos": True}, {"d": 2, "b": "T", "wc": "none", "pos": True}, {"d": 0, "b": "T", "wc": "Bar", "pos": True}], "bar": ["A", "B"], "marker": False},
    # interacting impls that are not adjacent
    {"impls": [{"d": 0, "b": "A", "wc": "none", "pos": True}, {"d": 0, "b": "B", "wc": "none", "pos": True}, {"d": 0, "b": "A", "wc": "none", "pos": True}], "bar": [], "marker": False},
    {"impls": [{"d": 1, "b": "T", "wc": "none", "pos": True}, {"d": 0, "b": "B", "wc": "none", "pos": True}, {"d": 1, "b": "A", "wc": "none", "pos": True}], "bar": [], "marker": False},
    {"impls": [{"d": 1, "b": "T", "wc": "Bar", "pos": True}, {"d": 0, "b": "B", "wc": "none", "pos": True}, {"d": 1, "b": "T", "wc": "none", "pos": False}], "bar": ["A"], "marker": False},
]

def sample_coh(n, maximpls, maxd, rnd):
    u = impl_universe(maxd)
    progs, seen = [], set()
    for p in FIXED_COH:
        if len(p["impls"]) <= maximpls: progs.append(p)
    while len(progs) < n:
        k = rnd.choice([2, 3, 3, 4, 4][:max(1, min(5, 2 * maximpls - 3))]) if maximpls >= 2 else 1
        k = min(k, maximpls)
        # bias: mostly positive impls, few identical headers
        impls = []
        for _ in range(k):
            im = dict(rnd.choice(u))
            if rnd.random() < 0.7: im["pos"] = True
            impls.append(im)
        p = {"impls": impls, "bar": sorted(rnd.sample(["A", "B"], rnd.choice([0, 1, 1, 2]))), "marker": rnd.random() < 0.08}
        key = json.dumps(p, sort_keys=True)
        if key in seen: continue
        seen.add(key); progs.append(p)
    return progs

@prop("C19")
def c19(run, tier):
    run.rule = ("(1) TLC explores every program of Coherence.tla's family exhaustively (<= MaxImpls impls of one trait: blanket / nested / concrete "
                "headers, where-clauses, negative impls, marker trait) and checks Total, EqualPrioDisjoint, SubsetHigher on the algorithm as "
                "implemented; (2) a seed-chosen subset plus a fixed list (chains of 3 and 4, non-adjacent interacting impls) is rendered as .chalk "
                "text and the real coherence() under both solvers must return the verdict and exactly the priorities the specification "
                "computes, never panic; non-trivial = at least one pair of impls overlaps (verdict overlap, or an edge was recorded); "
                "distinct = (program text, solver)")
    run.assumptions = ["impl headers V^d<T|A|B> with d <= 2, where-clause `T: Bar` with Bar implemented for a subset of {A, B}; one trait parameter (Self)",
                       "all items local, so the `compatible` modality adds no clauses",
                       "pairs of two negative impls are exempt from EqualPrioDisjoint (the code documents that they never overlap)",
                       "trusted: TLC, the renderer render_coh, the meaning ApplySet of Coherence.tla"]
    big = tier == "thorough"
    cfg = "SPECIFICATION Spec\nCONSTANTS\n  MaxImpls = %d\n  MaxD = 2\n  FromFile = %s\nINVARIANTS Total EqualPrioDisjoint SubsetHigher BoundedDfs %s\nCHECK_DEADLOCK TRUE\n"
    r = run_tlc_mc(run, "CoherenceMC", cfg % (3, "FALSE", ""), "C19a", workers=8, timeout=1500)
    if r is None: return
    run.exhaustive = True
    rnd = random.Random(seed())
    progs = sample_coh(1500 if big else 250, 4, 2, rnd)
    os.makedirs(tlc.WORK, exist_ok=True)
    inp = os.path.join(tlc.WORK, "inputs_C19.ndjson")
    with open(inp, "w") as f:
        for p in progs: f.write(json.dumps(p) + "\n")
    r = run_tlc_mc(run, "CoherenceMC", cfg % (4, "TRUE", "Replay"), "C19b", env={"INPUTS": inp}, workers=4, timeout=900)
    if r is None: return
    recs = gc.parse_replay(r)
    os.unlink(inp)
    for solver in (SLG, REC):
        sname = gc.solver_name(solver)
        jobs = [{"id": i, "program": render_coh({"impls": rec["prog"]["impls"], "bar": rec["prog"]["bar"], "marker": rec["prog"]["marker"]}),
                 "solver": solver, "queries": ["coherence"], "trait": "Foo"} for i, rec in enumerate(recs)]
        obs = harness.run("lower", jobs, timeout=300)
        for rec, job, o in zip(recs, jobs, obs):
            nontrivial = rec["verdict"] == "overlap" or any(x >= 0 for x in rec["prio"])
            run.case([job["program"], sname], nontrivial=nontrivial)
            rp = {"program": job["program"], "solver": solver, "expected": {"verdict": rec["verdict"], "prio": rec["prio"]}, "observed": o}
            base = {"solver": sname}
            if o.get("error"):
                run.violation(dict(base, what="abort-or-hang", detail=str(o["error"])[:80]), rp); continue
            res = o["results"]["coherence"]
            got = "ok" if res["r"] == "ok" else ("panic" if res["r"] == "panic" else ("overlap" if "overlapping impls" in res["text"] else "other: " + res["text"][:60]))
            if got == "panic":
                run.violation(dict(base, what="coherence panics", text=res["text"][:80]), rp)
            elif got != rec["verdict"]:
                run.violation(dict(base, what="verdict differs from specification", expected=rec["verdict"], observed=got), rp)
            elif got == "ok" and o["prio"] != rec["prio"]:
                run.violation(dict(base, what="priorities differ from specification", expected=rec["prio"], observed=o["prio"]), rp)
            else:
                run.traces += 1          # a specification behaviour reproduced by the implementation
            if nontrivial:
                run.sample({"program": job["program"], "solver": sname, "spec": [rec["verdict"], rec["prio"]], "impl": [got, o.get("prio")]}, cap=6)
    run.extra["programs_replayed"] = len(recs)

# ------------------------------------------------------------------ C20
def arg_text(t):
    k, a = t["k"], t["a"]
    if k == "L": return "L"
    if k == "U": return "U"
    if k == "S": return "u32"
    if k == "T": return "T"
    if k in ("LG", "UG", "F"): return "%s<%s>" % (k, arg_text(a[0]))
    if k == "Tup": return "(%s, %s)" % (arg_text(a[0]), arg_text(a[1]))
    raise ValueError(k)

def has_param(t):
    return t["k"] == "T" or any(has_param(x) for x in t["a"])

def render_orphan(h):
    args = h["args"]
    n = len(args)
    tparams = ["X%d" % i for i in range(1, n)]
    out = ["%strait Rem%s {}" % ("" if h["local"] else "#[upstream] ", ("<" + ", ".join(tparams) + ">") if tparams else ""),
           "struct L {}", "struct LG<T> {}", "#[upstream] struct U {}", "#[upstream] struct UG<T> {}", "#[upstream] #[fundamental] struct F<T> {}"]
    gen = "<T>" if any(has_param(a) for a in args) else ""
    targs = ("<" + ", ".join(arg_text(a) for a in args[1:]) + ">") if n > 1 else ""
    out.append("impl%s Rem%s for %s {}" % (gen, targs, arg_text(args[0])))
    return " ".join(out)

@prop("C20")
def c20(run, tier):
    run.rule = ("TLC enumerates every impl header of Orphan.tla's universe (local / upstream trait with NArgs type arguments drawn from 43 argument "
                "shapes: local, upstream, generic, fundamental-upstream (nested), scalar, tuples, impl parameter) and checks EncodingCorrect: the "
                "clause encoding LocalImplAllowed / IsLocal / IsFullyVisible as implemented agrees with the orphan rule as stated; a "
                "seed-chosen residue class of headers (thorough: a much larger one, plus all headers with <= 2 arguments) is rendered and the real orphan_check() under both "
                "solvers must return the rule's verdict; non-trivial = upstream trait; distinct = (program text, solver)")
    run.assumptions = ["argument shapes of depth <= 2 (3 for nested fundamental), up to 3 type arguments (Self + 2)",
                       "trusted: TLC, the renderer render_orphan, OrphanOK of Orphan.tla (the rule as the property states it)"]
    big = tier == "thorough"
    recs = []
    plans = [(3, 211 if big else 1499, seed() % (211 if big else 1499))]
    plans += [(2, 1, 0), (1, 1, 0)] if big else [(2, 17, seed() % 17), (1, 1, 0)]
    for (nargs, stride, off) in plans:
        cfg = "SPECIFICATION Spec\nCONSTANTS\n  NArgs = %d\n  Stride = %d\n  Offset = %d\nINVARIANTS Correct Replay\nCHECK_DEADLOCK FALSE\n" % (nargs, stride, off)
        r = run_tlc_mc(run, "OrphanMC", cfg, "C20_%d" % nargs, workers=8, timeout=900)
        if r is None: return
        recs += gc.parse_replay(r)
    run.exhaustive = True
    for solver in (SLG, REC):
        sname = gc.solver_name(solver)
        jobs = [{"id": i, "program": render_orphan(rec), "solver": solver, "queries": ["orphan"]} for i, rec in enumerate(recs)]
        obs = harness.run("lower", jobs, timeout=300)
        for rec, job, o in zip(recs, jobs, obs):
            run.case([job["program"], sname], nontrivial=not rec["local"])
            rp = {"program": job["program"], "solver": solver, "expected_ok": rec["ok"], "observed": o}
            if o.get("error"):
                run.violation({"solver": sname, "what": "abort-or-hang", "detail": str(o["error"])[:80]}, rp); continue
            res = o["results"]["orphan"]
            got = True if res["r"] == "ok" else (False if (res["r"] == "err" and "orphan rules" in res["text"]) else res["r"] + ": " + res["text"][:60])
            if got != rec["ok"]:
                run.violation({"solver": sname, "what": "orphan verdict differs from the orphan rule", "expected": rec["ok"], "observed": got,
                               "shape": [a["k"] for a in rec["args"]]}, rp)
            else:
                run.traces += 1
            if not rec["local"]:
                run.sample({"program": job["program"][job["program"].index("impl"):], "upstream_trait": True, "solver": sname, "rule": rec["ok"], "impl": got}, cap=6)
    run.extra["headers_replayed"] = len(recs)
