"""Shared plumbing of the /verif/check driver: tiers/seeds, evidence, known findings, verdicts."""
import os, sys, json, time, hashlib

ROOT = os.path.dirname(os.path.dirname(os.path.abspath(__file__)))
EVID = os.path.join(ROOT, "evidence")
REPLAY = os.path.join(ROOT, "replay")
FINDINGS = os.path.join(ROOT, "known-findings.json")

def seed():
    try: return int(os.environ.get("VERIF_SEED", "0"))
    except ValueError: return 0

class ToolError(Exception):
    """The machinery itself failed (TLC crashed, harness did not build, timeout): exit 2."""

class Run:
    """Accumulates what one check run covered and found."""
    def __init__(self, pid, tier, level="model_checking"):
        self.pid, self.tier, self.level = pid, tier, level
        self.t0 = time.time()
        self.states = 0; self.transitions = 0; self.traces = 0
        self.evaluations = 0; self.distinct = set()
        self.samples = []; self.assumptions = []; self.extra = {}
        self.violations = []       # (signature dict, replay dict)
        self.known_hits = {}       # finding id -> count
        self.exhaustive = None
        self.rule = ""
        self.findings = [f for f in load_findings() if f.get("property") == pid and f.get("status") == "known"]

    def add_tlc(self, r):
        self.states += r.distinct; self.transitions += r.generated
    def case(self, key, nontrivial=True):
        self.evaluations += 1
        if nontrivial: self.distinct.add(hashlib.md5(json.dumps(key, sort_keys=True).encode()).hexdigest())
    def sample(self, s, cap=4):
        if len(self.samples) < cap: self.samples.append(s)

    def violation(self, sig, replay):
        """sig: dict describing what failed (fields used by the known-findings matcher)."""
        for f in self.findings:
            if all(sig.get(k) == v for k, v in f["match"].items()):
                self.known_hits[f["id"]] = self.known_hits.get(f["id"], 0) + 1
                return False
        self.violations.append((sig, replay))
        return True

    def finish(self):
        os.makedirs(EVID, exist_ok=True); os.makedirs(REPLAY, exist_ok=True)
        cov = {"states": self.states, "transitions": self.transitions,
               "traces_validated_against_impl": self.traces,
               "evaluations": self.evaluations, "distinct_nontrivial": len(self.distinct),
               "rule": self.rule, "samples": self.samples or ["(none)"]}
        if self.exhaustive is not None: cov["exhaustive"] = self.exhaustive
        cov.update(self.extra)
        cov["known_findings_hit"] = self.known_hits
        ev = {"property_id": self.pid, "tier": self.tier, "seed": seed(), "level": self.level,
              "coverage": cov, "assumptions": self.assumptions,
              "wall_s": round(time.time() - self.t0, 2), "violations": len(self.violations)}
        with open(os.path.join(EVID, self.pid + ".json"), "w") as f:
            json.dump(ev, f, indent=1)
        for f in self.findings:
            if f["id"] in self.known_hits:
                print("KNOWN-FINDING: property=%s %s [%s; %d occurrence(s) this run]" % (self.pid, f["what"], f["id"], self.known_hits[f["id"]]))
        if self.violations:
            path = os.path.join(REPLAY, "%s-%s-%d.json" % (self.pid, self.tier, seed()))
            with open(path, "w") as f:
                json.dump({"property": self.pid, "violations": [{"signature": s, "replay": r} for s, r in self.violations[:50]],
                           "total": len(self.violations)}, f, indent=1)
            for s, _ in self.violations[:5]:
                print("  violation:", json.dumps(s)[:600])
            print("VIOLATION property=%s replay=%s" % (self.pid, path))
            return 1
        print("OK property=%s tier=%s states=%d transitions=%d traces=%d evaluations=%d distinct=%d wall=%.1fs" % (
            self.pid, self.tier, self.states, self.transitions, self.traces, self.evaluations, len(self.distinct), time.time() - self.t0))
        return 0

def load_findings():
    if not os.path.exists(FINDINGS): return []
    return json.load(open(FINDINGS)).get("findings", [])
