"""C25 (binder operations), C26 (type flags), C18 (could_match): Terms.tla / TermsMC.tla / CouldMatch.tla."""
import json, random
import tlc, harness, groundcheck as gc
from props import prop
from props_mem import run_tlc_mc
from common import seed, ToolError

def chunks(xs, n):
    return [xs[i:i + n] for i in range(0, len(xs), n)]

def run_items(items, variances=None, per=400):
    jobs = [{"id": i, "items": c, "variances": variances or {}} for i, c in enumerate(chunks(items, per))]
    obs = harness.run("terms", jobs, timeout=300)
    out = []
    for job, o in zip(jobs, obs):
        if o.get("error"):
            out.extend([{"abort": str(o["error"])[:120]}] * len(job["items"]))
        else:
            out.extend(o["results"])
    return out

def show(t):
    """compact rendering of a term for samples / signatures"""
    k, a = t["k"], t.get("a", [])
    inner = ",".join(show(x) for x in a)
    tag = k + ("%d" % t["n"] if k in ("bound", "lbound", "cbound", "adt", "infer", "fnptr") else "") + (".%d" % t["m"] if k in ("bound", "lbound", "cbound") else "")
    return tag + ("(" + inner + ")" if a else "")

TERMS_CFG = 'SPECIFICATION Spec\nCONSTANTS\n  Mode = "%s"\n  Stride = 1\n  Offset = 0\nINVARIANTS ShiftRoundTrip SubstIdentity SubstOfShifted SubstCommutesShift Replay\nCHECK_DEADLOCK FALSE\n'

@prop("C26")
def c26(run, tier):
    run.rule = ("TLC enumerates the bounded universe of types of TermsMC.tla (every type constructor over every kind of type / lifetime / constant atom, "
                "constants with non-trivial types, dyn bounds of every where-clause kind, fn pointers, two levels of nesting) and computes Flags(t) from "
                "the occurrence of subterms; the real TyData::flags of the same term built in chalk-ir must be equal (STILL_FURTHER_SPECIALIZABLE "
                "excluded); non-trivial = the flag set is not empty; distinct = term")
    run.assumptions = ["placeholder application types (TyKind::OpaqueType / AssociatedType / FnDef / Closure / Coroutine) are not in the universe",
                       "trusted: TLC, the term builder harness/src/terms.rs, the occurrence reading of each flag in Terms.tla"]
    r = run_tlc_mc(run, "TermsMC", TERMS_CFG % "flags", "C26", workers=8, timeout=900)
    if r is None: return
    run.exhaustive = True
    recs = gc.parse_replay(r)
    obs = run_items([{"op": "flags", "t": rec["t"]} for rec in recs])
    for rec, o in zip(recs, obs):
        want = sorted(rec["flags"])
        run.case(rec["t"], nontrivial=bool(want))
        rp = {"term": rec["t"], "expected": want, "observed": o}
        if "flags" not in o:
            run.violation({"what": "abort-or-panic", "detail": json.dumps(o)[:100]}, rp); continue
        got = sorted(f for f in o["flags"] if f != "STILL_FURTHER_SPECIALIZABLE")
        if got != want:
            run.violation({"what": "flags differ from the occurrences in the type", "missing": sorted(set(want) - set(got)), "extra": sorted(set(got) - set(want)),
                           "shape": show(rec["t"])[:80]}, rp)
        else:
            run.traces += 1
        if len(want) >= 3: run.sample({"type": show(rec["t"]), "flags": got}, cap=6)

@prop("C25")
def c25(run, tier):
    run.rule = ("TLC enumerates the bounded universe of de Bruijn terms of TermsMC.tla (type / lifetime / constant variables at binder depths 0..2, under "
                "fn-pointer and dyn binders nested twice) and checks the laws ShiftRoundTrip, SubstIdentity, SubstOfShifted, SubstCommutesShift on the "
                "specification's ShiftIn / ShiftOut / Subst; for each term the real shifted_in, shifted_out, Subst::apply (identity and a hashed choice "
                "of parameter lists) and a no-op fold must return exactly the specification's result; non-trivial = the term has a variable "
                "pointing outside itself; distinct = (term, operation)")
    run.assumptions = ["types only (goals and program clauses are not in the universe)",
                       "trusted: TLC, the term builder/projection harness/src/terms.rs"]
    r = run_tlc_mc(run, "TermsMC", TERMS_CFG % "binders", "C25", workers=8, timeout=900)
    if r is None: return
    run.exhaustive = True
    recs = gc.parse_replay(r)
    items, meta = [], []
    for rec in recs:
        t = rec["t"]
        items.append({"op": "shift_in", "t": t}); meta.append((rec, "shift_in", rec["shift_in"]))
        items.append({"op": "shift_out", "t": t}); meta.append((rec, "shift_out", None if rec["shift_out"]["k"] == "FAIL" else rec["shift_out"]))
        items.append({"op": "fold_id", "t": t}); meta.append((rec, "fold_id", t))
        for s in rec["substs"]:
            items.append({"op": "subst", "t": t, "params": s["p"]}); meta.append((rec, "subst", s["r"]))
    obs = run_items(items)
    for (rec, op, want), it, o in zip(meta, items, obs):
        nontrivial = rec["shift_in"] != rec["t"]
        run.case([rec["t"], op, it.get("params")], nontrivial=nontrivial)
        rp = {"item": it, "expected": want, "observed": o}
        if "r" not in o:
            run.violation({"what": "abort-or-panic", "op": op, "detail": json.dumps(o)[:100]}, rp); continue
        if o["r"] != want or (op == "fold_id" and not o.get("eq")):
            run.violation({"what": "result differs from the specification's operator", "op": op, "shape": show(rec["t"])[:80]}, rp)
        else:
            run.traces += 1
        if nontrivial and op == "subst": run.sample({"term": show(rec["t"]), "op": op, "params": [show(p) for p in it["params"]], "result": show(o["r"])}, cap=6)

@prop("C18")
def c18(run, tier):
    run.rule = ("TLC takes every term of CouldMatchMC.tla's universe (295 types: clause heads with bound variables, goals with general / integer / float "
                "unknowns in two universes, placeholders, references, raw pointers, arrays with constants, fn pointers, tuples, ADTs, aliases, error; "
                "repeated variables) against every other (87 025 pairs), decides Unifiable (Unify.tla: kinds, occurs check, universes) and checks "
                "FilterSound on could_match as implemented; the real CouldMatch::could_match is evaluated on every pair and must be true for every "
                "unifiable pair; the same for pairs of two-element argument lists (impl header vs. trait-reference arguments, 20 736 pairs); "
                "non-trivial = the pair is unifiable and the two terms differ; distinct = pair")
    run.assumptions = ["types of depth <= 2; dyn types and fn pointers with binders are not in the universe",
                       "trusted: TLC, the term builder harness/src/terms.rs, Unifiable of Unify.tla"]
    cfg = 'SPECIFICATION Spec\nCONSTANTS\n  Mode = "%s"\nINVARIANTS FilterSound ListSound Replay ReplayLists\nCHECK_DEADLOCK FALSE\n'
    deviations = 0
    for mode in ("types", "lists"):
        r = run_tlc_mc(run, "CouldMatchMC", cfg % mode, "C18" + mode, workers=8, timeout=1800)
        if r is None: return
        recs = sorted(gc.parse_replay(r), key=lambda x: x["i"])
        n = len(recs)
        items, meta = [], []
        for a in recs:
            un = set(a["unif"]); af = set(a.get("algfalse", []))
            for b in recs:
                if mode == "types": items.append({"op": "could_match", "a": a["t"], "b": b["t"]})
                else: items.append({"op": "could_match_args", "a": a["t"], "b": b["t"]})
                meta.append((a, b, b["i"] in un, b["i"] in af))
        obs = run_items(items, per=4000)
        for (a, b, unif, algfalse), it, o in zip(meta, items, obs):
            run.case([a["i"], b["i"], mode], nontrivial=unif and a["i"] != b["i"])
            if "r" not in o:
                run.violation({"what": "abort-or-panic", "detail": json.dumps(o)[:100]}, {"item": it, "observed": o}); continue
            if unif and not o["r"]:
                sh = (show(a["t"]), show(b["t"])) if mode == "types" else ([show(x) for x in a["t"]], [show(x) for x in b["t"]])
                run.violation({"what": "could_match rejects a unifiable pair", "mode": mode, "a": str(sh[0])[:60], "b": str(sh[1])[:60]}, {"item": it, "observed": o})
            elif unif:
                run.traces += 1
            if mode == "types" and (not o["r"]) != algfalse: deviations += 1
            if unif and mode == "types" and a["t"]["k"] == "adt" and a["i"] != b["i"]:
                run.sample({"head": show(a["t"]), "goal": show(b["t"]), "unifiable": True, "could_match": o["r"]}, cap=5)
    run.exhaustive = True
    run.extra["pairs_where_real_filter_differs_from_as_is_model"] = deviations

def canon_unknowns(args):
    """rename every unknown (fresh variable of the specification / bound variable of the implementation) by order of first occurrence"""
    names = {}
    def go(t):
        k = t["k"]
        if k in ("FRESH", "lFRESH", "cFRESH"):
            key = ("f", k, t["n"]); sort = {"FRESH": "ty", "lFRESH": "lt", "cFRESH": "const"}[k]
        elif k in ("bound", "lbound", "cbound"):
            key = ("b", k, t["m"]); sort = {"bound": "ty", "lbound": "lt", "cbound": "const"}[k]
        else:
            return {"k": k, "n": t["n"], "m": t["m"], "a": [go(x) for x in t["a"]]}
        if key not in names: names[key] = len(names)
        return {"k": "unknown", "sort": sort, "i": names[key]}
    return [go(x) for x in args]

@prop("C17")
def c17(run, tier):
    run.rule = ("TLC takes every pair (current guidance, new answer) of 17 712 pairs of canonical two-argument substitutions (types of every constructor, "
                "repeated unknowns, lifetimes and constants at top level and nested) and checks MergeGeneralizes (both are instances of the merge) and "
                "MayInvalidateSoundUnlessRepeated on Guidance.tla; all pairs of 8 abstract solutions for CombineSymmetric / CombineNoStronger; the real "
                "merge_into_guidance must return the specified anti-unifier (modulo naming of unknowns), the real may_invalidate must say yes whenever an "
                "instance of the new answer is not an instance of the guidance, the real Solution::combine must return the specified result in both "
                "orders; non-trivial = the two substitutions differ; distinct = pair")
    run.assumptions = ["substitutions of length 2 over the argument universe of GuidanceMC.tla; instances of the pending answer are taken over 3 closed types",
                       "trusted: TLC, harness/src/terms.rs + termops.rs, Instance (matching) of Guidance.tla"]
    cfg = 'SPECIFICATION Spec\nCONSTANTS\n  Mode = "%s"\nINVARIANTS MergeGeneralizes MayInvalidateSoundUnlessRepeated CombineSymmetric CombineNoStronger Replay\nCHECK_DEADLOCK FALSE\n'
    r = run_tlc_mc(run, "GuidanceMC", cfg % "merge", "C17m", workers=10, timeout=1800)
    if r is None: return
    recs = gc.parse_replay(r)
    obs = run_items([{"op": "merge", "cur": x["cur"], "new": x["new"]} for x in recs], per=1500)
    dev = 0
    for rec, o in zip(recs, obs):
        run.case([rec["cur"], rec["new"]], nontrivial=rec["cur"] != rec["new"])
        rp = {"cur": rec["cur"], "new": rec["new"], "expected": {"merged": rec["merged"], "must_invalidate": rec["must"]}, "observed": o}
        sh = {"cur": [show(x) for x in rec["cur"]], "new": [show(x) for x in rec["new"]]}
        if "merged" not in o:
            run.violation(dict(sh, what="abort-or-panic", detail=json.dumps(o)[:100]), rp); continue
        bad = False
        if canon_unknowns(o["merged"]) != canon_unknowns(rec["merged"]):
            bad |= run.violation(dict(sh, what="merged guidance differs from the specified anti-unifier"), rp)
        if rec["must"] and not o["may_invalidate"]:
            if rec["repeated"] and not rec["alg"]:
                bad |= run.violation({"deviation": "MI_RepeatedGuidanceVar", "what": "may_invalidate says no although a future answer need not be an instance of the guidance"}, rp)
            else:
                bad |= run.violation(dict(sh, what="may_invalidate says no although a future answer need not be an instance of the guidance"), rp)
        if o["may_invalidate"] != rec["alg"]: dev += 1
        if not bad: run.traces += 1
        if rec["cur"] != rec["new"] and rec["cur"][0]["k"] == "adt": run.sample(dict(sh, merged=[show(x) for x in o["merged"]], may_invalidate=o["may_invalidate"]), cap=5)
    run.extra["pairs_where_real_check_differs_from_as_is_model"] = dev
    r = run_tlc_mc(run, "GuidanceMC", cfg % "combine", "C17c", workers=4, timeout=600)
    if r is None: return
    recs = gc.parse_replay(r)
    obs = run_items([{"op": "combine", "x": x["cur"], "y": x["new"]} for x in recs])
    for rec, o in zip(recs, obs):
        run.case(["combine", rec["cur"], rec["new"]], nontrivial=rec["cur"] != rec["new"])
        rp = {"x": rec["cur"], "y": rec["new"], "expected": rec["combined"], "observed": o}
        if "kind" not in o:
            run.violation({"what": "abort-or-panic", "detail": json.dumps(o)[:100]}, rp); continue
        want = rec["combined"]
        ok = o["kind"] == want["kind"] and o["sym"]
        if want["s"] != 0: ok = ok and ((want["s"] == rec["cur"]["s"] and o["subst_of_x"]) or (want["s"] == rec["new"]["s"] and o["subst_of_y"]))
        if not ok:
            run.violation({"what": "Solution::combine differs from the specification", "x": [rec["cur"]["kind"], rec["cur"]["s"]], "y": [rec["new"]["kind"], rec["new"]["s"]],
                           "expected": want["kind"], "observed": o["kind"], "symmetric": o["sym"]}, rp)
        else: run.traces += 1
    run.exhaustive = True
