"""Propositional program families (DESIGN.md section 4, Ground level): enumeration, rendering as
chalk text, and normalisation of real traces to the goal names SLGGround.tla uses."""
import itertools, json, random, re

def atoms(n): return ["a%d" % i for i in range(1, n + 1)]

def clause_universe(n, maxbody, neg):
    A = atoms(n)
    lits = [(True, a) for a in A] + ([(False, a) for a in A] if neg else [])
    bodies = [()]
    for k in range(1, maxbody + 1):
        bodies += list(itertools.product(lits, repeat=k))
    return [(h, b) for h in A for b in bodies]

def deps(prog):
    d = {}
    for h, b in prog["clauses"]:
        d.setdefault(h, set())
        for pos, a in b:
            d[h].add(a); d.setdefault(a, set())
    return d

def reach(d):
    r = {a: set(d[a]) for a in d}
    ch = True
    while ch:
        ch = False
        for a in r:
            new = set().union(*[r[b] for b in r[a]]) if r[a] else set()
            if not new <= r[a]:
                r[a] |= new; ch = True
    return r

def stratified(prog):
    d = deps(prog); r = reach(d)
    for h, b in prog["clauses"]:
        for pos, a in b:
            if not pos and (h == a or h in r[a]): return False
    return True

def no_mixed_cycles(prog):
    d = deps(prog); r = reach(d); co = set(prog["co"])
    for a in d:
        for b in r[a]:
            if a in r[b] and ((a in co) != (b in co)): return False
    return True

def neg_on_co(prog):
    co = set(prog["co"])
    return any((not pos) and a in co for h, b in prog["clauses"] for pos, a in b)

def family(n, maxclauses, maxbody, neg, co, seed=None, sample=None, allow_neg_on_co=False):
    """All programs with <= maxclauses clauses (sequences, order matters) over n atoms; `co`: also all
    choices of coinductive atoms.  Filter: stratified, no mixed cycles.  sample: keep a seed-chosen
    subset of that size."""
    U = clause_universe(n, maxbody, neg)
    A = atoms(n)
    out = []
    for k in range(0, maxclauses + 1):
        for cl in itertools.product(U, repeat=k):
            used = set(h for h, b in cl) | set(a for h, b in cl for p, a in b)
            cosets = [()]
            if co:
                cosets = [c for r in range(0, len(used) + 1) for c in itertools.combinations(sorted(used), r)]
            for cs in cosets:
                p = {"clauses": list(cl), "co": list(cs)}
                if not stratified(p) or not no_mixed_cycles(p): continue
                if not allow_neg_on_co and neg_on_co(p): continue
                out.append(p)
    if sample is not None and sample < len(out):
        rnd = random.Random(seed)
        out = rnd.sample(out, sample)
    for i, p in enumerate(out):
        p["id"] = i
    return out

def smoke(co_variants=True):
    """A fixed list of structured programs that random sampling of the families rarely hits: a cycle a1 -> a2 -> a1 whose head a1
    fails (or succeeds) late because of another condition a4, and a reader a3 of the cycle member a2 that is evaluated while the
    cycle is still provisional -- in every order of the head's conditions, inductive and coinductive."""
    out = []
    bodies3 = list(itertools.permutations(["a4", "a3", "a2"]))
    for body in bodies3:
        for a4fact in (False, True):
            base = [("a1", tuple((True, x) for x in body)), ("a2", ((True, "a1"),)), ("a3", ((True, "a2"),))] + ([("a4", ())] if a4fact else [])
            for co in ([["a1", "a2", "a3"], []] if co_variants else [[]]):
                out.append({"clauses": base, "co": co})
    for body in itertools.permutations(["a3", "a2"]):
        for extra in ([("a3", ((True, "a2"), (True, "a4")))], [("a3", ((True, "a4"), (True, "a2")))], [("a3", ((True, "a2"),)), ("a4", ((True, "a3"),))]):
            base = [("a1", tuple((True, x) for x in body)), ("a2", ((True, "a1"),))] + extra
            for co in ([["a1", "a2", "a3"], ["a1", "a2", "a3", "a4"], []] if co_variants else [[]]):
                p = {"clauses": base, "co": co}
                if no_mixed_cycles(p): out.append(p)
    for i, p in enumerate(out): p["id"] = 5000000 + i
    return out

def to_tla_json(p, goals):
    return {"id": p["id"],
            "clauses": [{"head": h, "body": [{"pos": pos, "a": a} for pos, a in b]} for h, b in p["clauses"]],
            "co": list(p["co"]), "goals": goals}

def all_atoms(p, n=None):
    used = set(h for h, b in p["clauses"]) | set(a for h, b in p["clauses"] for pos, a in b)
    return sorted(used) if used else ["a1"]

def render(p, natoms=4):
    return " ".join(render_items(p, natoms))

def render_items(p, natoms=4):
    """chalk text, one string per item.  Clauses without negation become impls (with where-clauses), clauses with negation
    custom clauses; declaration order is kept within each group."""
    co = set(p["co"])
    out = []
    for i in range(1, natoms + 1):
        out.append("struct S%d {}" % i)
    for i in range(1, natoms + 1):
        out.append(("#[coinductive] " if ("a%d" % i) in co else "") + "trait T%d {}" % i)
    def st(a): i = a[1:]; return "S%s: T%s" % (i, i)
    for h, b in p["clauses"]:
        i = h[1:]
        if all(pos for pos, a in b):
            wc = (" where " + ", ".join(st(a) for pos, a in b)) if b else ""
            out.append("impl T%s for S%s%s {}" % (i, i, wc))
        else:
            conds = ", ".join(st(a) if pos else "not { %s }" % st(a) for pos, a in b)
            out.append("forall<> { %s if %s }" % (st(h), conds))
    return out

def goal_text(g):
    i = g[1:]
    if g[0] == "a": return "S%s: T%s" % (i, i)
    if g[0] == "n": return "not { S%s: T%s }" % (i, i)
    raise ValueError(g)

# ---- normalisation of real traces --------------------------------------------------------------
_GOAL = re.compile(r"(Implemented|FromEnv)\(S(\d+): T(\d+)\)")

def name_of_text(text):
    """Debug text of a goal / u-canonical goal -> ground goal name, or None."""
    m = re.search(r"goal: (.*?) \}(?:, binders: \[\] \}, universes: 1 \})?$", text)
    if not m: return None
    g = m.group(1)
    m2 = re.fullmatch(r"Implemented\(S(\d+): T(\d+)\)", g)
    if m2 and m2.group(1) == m2.group(2): return "a" + m2.group(1)
    m2 = re.fullmatch(r"FromEnv\(S(\d+): T(\d+)\)", g)
    if m2 and m2.group(1) == m2.group(2): return "e" + m2.group(1)
    m2 = re.fullmatch(r"Not\(Implemented\(S(\d+): T(\d+)\)\)", g)
    if m2 and m2.group(1) == m2.group(2): return "n" + m2.group(1)
    return None

def normalise(events):
    """Real trace (with Def events) -> the exact records SLGGround.tla's Candidates produce.
    Raises KeyError if a fingerprint cannot be mapped (then the run was not propositional)."""
    names, keydel = {}, {}
    for e in events:
        if e["ev"] == "Def":
            n = name_of_text(e["text"])
            if n: names[e["fp"]] = n
            if "AnswerSubst" in e["text"]:
                part = e["text"].split("delayed_subgoals:")[1]
                keydel[e["fp"]] = ["a" + m.group(2) if m.group(1) == "Implemented" else "e" + m.group(2)
                                   for m in _GOAL.finditer(part)]
    def lit(l): return {"pos": l["pos"], "g": names[l["g"]]}
    def strand(s):
        return {"lits": [lit(l) for l in s["lits"]], "flo": [{"lit": lit(f["lit"]), "t": f["t"]} for f in s["flo"]],
                "del": [names[d] for d in s["del"]], "sel": s["sel"], "selT": s["selT"], "selA": s["selA"],
                "last": s["last"], "amb": s["amb"], "atime": s["atime"], "sub": "", "ncon": s["ncon"]}
    out = []
    for e in events:
        ev = e["ev"]
        if ev == "Def": continue
        r = {"ev": ev}
        if ev == "Op": r["kind"] = e["kind"]
        elif ev == "TableNew":
            r.update(table=e["table"], key=names[e["key"]], g=names[e["g"]], co=e["co"], flo=e["flo"],
                     strands=[strand(s) for s in e["strands"]])
        elif ev in ("Stream",): r["table"] = e["table"]
        elif ev == "RootBegin": r.update(table=e["table"], ans=e["ans"])
        elif ev == "Push": r.update(table=e["table"], clock=e["clock"])
        elif ev == "Take": r.update(table=e["table"], src=e["src"], strand=[strand(s) for s in e["strand"]])
        elif ev == "Select": r.update(idx=e["idx"], table=e["table"])
        elif ev == "FlounderLit": r.update(idx=e["idx"])
        elif ev == "SubFloundered": r.update(pos=e["pos"])
        elif ev == "Merge": r.update(outcome=e["outcome"], next=[strand(s) for s in e["next"]], strand=[strand(s) for s in e["strand"]])
        elif ev in ("CycleCo", "Refine", "Reconsider"): r["strand"] = strand(e["strand"])
        elif ev in ("CyclePos", "PartOfCycle"): r.update(minPos=e["minPos"], minNeg=e["minNeg"])
        elif ev == "AnswerNew":
            d = [names[x] for x in e["del"]]
            r.update(idx=e["idx"], amb=e["amb"], trivial=e["trivial"], trivsub=e["trivsub"], key=d, **{"del": d})
        elif ev == "AnswerDup": r["key"] = keydel[e["key"]]
        elif ev == "CycleComplete": r["cleared"] = e["cleared"]
        elif ev == "DropState": r["active"] = e["active"]
        elif ev == "RootEnd": r.update(res=e["res"], amb=e["amb"])
        elif ev == "AggEnd": r.update(sol=e["sol"], via=e["via"], n=e["n"])
        elif ev == "AggMerge": r["n"] = e["n"]
        elif ev == "Cb": r.update(kind=e["kind"], more=e["more"])
        elif ev == "OpEnd": r["class"] = e["class"]
        out.append(r)
    return out
