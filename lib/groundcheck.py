"""Ground engine: SLGGroundMC (TLC) over a family of propositional programs x histories of
public calls -> REPLAY records -> real SLG / recursive solver (spec -> impl), real SLG
traces -> SLGTrace (impl -> spec)."""
import os, json, re, random, tempfile
import ground, tlc, harness
from common import ToolError, seed

SLG = {"kind": "slg", "max_size": 10}
REC = {"kind": "rec", "overflow": 100, "cache": True, "max_size": 30}
RECNC = {"kind": "rec", "overflow": 100, "cache": False, "max_size": 30}

def solver_name(s):
    return "slg" if s["kind"] == "slg" else ("rec" if s.get("cache", True) else "rec-nocache")

def parse_replay(r):
    recs = []
    for t in r.printed("REPLAY"):
        m = re.search(r'"REPLAY",\s*"(.*)"\s*>>', t, re.S)
        if not m: raise ToolError("unparsable REPLAY record: " + t[:200])
        js = m.group(1).replace("\n", "")
        recs.append(json.loads(json.loads('"' + js + '"')))
    return recs

def model_check(run, fam, goals_of, consts, tag, timeout=1500, workers=8):
    """Runs SLGGroundMC on the family; returns replay records.  Spec-level invariant violations
    are reported as violations of the property (design-level counterexample)."""
    os.makedirs(tlc.WORK, exist_ok=True)
    inp = os.path.join(tlc.WORK, "inputs_%s.ndjson" % tag)
    with open(inp, "w") as f:
        for p in fam: f.write(json.dumps(ground.to_tla_json(p, goals_of(p))) + "\n")
    cfgname = "MC_%s.cfg" % tag
    kinds = "{" + ",".join('"%s"' % k for k in consts["Kinds"]) + "}"
    with open(os.path.join(tlc.SPEC, cfgname), "w") as f:
        f.write("SPECIFICATION Spec\nCONSTANTS\n  MaxOps = %d\n  Kinds = %s\n  MaxStop = %d\n  MaxPanic = %d\n  MaxEvents = %d\n  NegGoals = FALSE\n  PanicPlans = %s\n"
                % (consts["MaxOps"], kinds, consts.get("MaxStop", 0), consts.get("MaxPanic", 0), consts.get("MaxEvents", 400),
                   "TRUE" if consts.get("PanicPlans") else "FALSE"))
        f.write("INVARIANTS TypeOK %s Replay\nCHECK_DEADLOCK TRUE\n" % " ".join(consts["Invariants"]))
    try:
        r = tlc.tlc("SLGGroundMC", cfgname, env={"INPUTS": inp}, workers=workers, timeout=timeout, xmx="12g")
    finally:
        os.unlink(os.path.join(tlc.SPEC, cfgname))
    run.add_tlc(r)
    if r.invariant_violated:
        for inv in r.invariant_violated:
            run.violation({"layer": "spec", "invariant": inv},
                          {"how": "TLC counterexample of SLGGroundMC", "inputs": inp, "constants": consts,
                           "tlc_tail": r.out[-3000:]})
        return []
    if not r.ok or not r.finished or r.timeout:
        raise ToolError("TLC failed on SLGGroundMC (%s): rc=%s timeout=%s\n%s" % (tag, r.rc, r.timeout, r.out[-7000:]))
    os.unlink(inp)
    return parse_replay(r)

def op_of(x):
    o = {"op": "solve", "goal": ground.goal_text(x["goal"])}
    if x["kind"] == "limited": o.update(op="limited", stop_at=x["k"], stop_mode="at")
    return o

def replay(run, recs, byid, solvers, render=ground.render, natoms=4, validate=True, check_steps=True, label=""):
    """spec -> impl: every behaviour TLC explored is driven through the real solvers."""
    for solver in solvers:
        sname = solver_name(solver)
        jobs = []
        for i, rec in enumerate(recs):
            p = byid[rec["id"]]
            jobs.append({"id": i, "program": render(p, natoms), "solver": solver, "trace": sname == "slg",
                         "defs": False, "ops": [op_of(x) for x in rec["results"]]})
        obs = harness.run("solve", jobs, timeout=300)
        traces = []
        for rec, o, job in zip(recs, obs, jobs):
            p = byid[rec["id"]]
            base = {"solver": sname, "render": label}
            rp = {"program": job["program"], "solver": solver, "ops": job["ops"], "expected": rec["results"], "observed": o}
            run.case([job["program"], job["ops"], sname], nontrivial=bool(p["clauses"]))
            if o.get("error"):
                run.violation(dict(base, what="abort-or-hang", detail=str(o["error"])[:80]), rp)
                continue
            bad = False
            for j, (x, y) in enumerate(zip(rec["results"], o["results"])):
                prior = [z["kind"] for z in rec["results"][:j]]
                sig = dict(base, op=x["kind"], prior_interrupted=("limited" in prior), expected=x["class"], observed=y.get("class"))
                panicked_before = any(z["class"] == "Panic" for z in rec["results"][:j])
                if sname != "slg" and any(z.get("class") == "Panic" for z in o["results"][:j]):
                    # an earlier call of this history panicked in the recursive solver and was reported above; the solver is then
                    # unusable (assert!(self.stack.is_empty()), property C12) - later calls are in the shadow of that report
                    continue
                if sname == "slg" and x["class"] == "Panic" and y.get("class") == "Panic":
                    # the as-is specification predicts the engine's own panic (named deviation) and the real engine panics
                    dev = "SLG_NegativeOnDelayedAnswer" if "Negative subgoal had delayed_subgoals" in y.get("text", "") else "unnamed"
                    bad |= run.violation({"solver": "slg", "deviation": dev, "what": "panic", "text": y.get("text", "")[:80]}, rp)
                elif y.get("class") == "Panic":
                    bad |= run.violation(dict(sig, what="panic", text=y.get("text", "")[:80]), rp)
                elif sname == "slg":
                    wrong = (x["class"] != x["truth"]) if x["kind"] == "solve" else (x["class"] not in (x["truth"], "Unknown"))
                    if y.get("class") == x["class"] and wrong and not panicked_before:
                        # the as-is specification itself predicts an answer the property forbids (named deviation),
                        # and the real engine does the same: a genuine defect, reported unless listed
                        dev = "SLG_RootSkipsDelayedAnswer" if (x.get("stale") and invalid_answer_in_op(o, j)) else "unnamed"
                        bad |= run.violation({"solver": "slg", "deviation": dev, "what": "answer contradicts the program's meaning",
                                              "expected": x["truth"], "observed": y.get("class")}, rp)
                    if y.get("class") != x["class"]:
                        bad |= run.violation(dict(sig, what="result differs from specification"), rp)
                    elif check_steps and (y.get("nevents") != x["nev"] + 1 or (x["kind"] == "limited" and y.get("cb") != x["cb"])):
                        bad |= run.violation(dict(sig, what="engine step count differs from specification",
                                                  expected_steps=x["nev"] + 1, observed_steps=y.get("nevents")), rp)
                else:
                    allowed = {x["truth"]} if x["kind"] == "solve" else {x["truth"], "Unknown"}
                    if y.get("class") not in allowed:
                        sig["expected"] = sorted(allowed)
                        bad |= run.violation(dict(sig, what="result differs from the program's meaning"), rp)
            if sname == "slg" and not bad and not any(y.get("class") == "Panic" for y in o["results"]):
                traces.append(([e for e in o.get("events", []) if e["ev"] != "Def"], rp))
            run.sample({"program": job["program"], "ops": job["ops"], "solver": sname,
                        "spec": [[x["goal"], x["kind"], x["class"], x["nev"]] for x in rec["results"]],
                        "impl": [[y.get("class"), y.get("nevents")] for y in o["results"]]})
        if validate and traces:
            validate_traces(run, traces, label or sname)

def invalid_answer_in_op(o, j):
    """Does the trace of the j-th public call contain RootEnd{res: InvalidAnswer}?"""
    k = -1
    for e in o.get("events", []):
        if e["ev"] == "Op": k += 1
        elif k == j and e["ev"] == "RootEnd" and e.get("res") == "InvalidAnswer": return True
    return False

def validate_traces(run, traces, label):
    """impl -> spec: each recorded execution must be a behaviour of SLG.tla (all invariants at every step)."""
    res = tlc.validate_many([t for t, _ in traces], module="SLGTrace")
    for (t, rp), r in zip(traces, res):
        if r is None: raise ToolError("trace validation did not run")
        if r[0]:
            if r[2] != "skipped": run.traces += 1
        else:
            ev = t[r[1] - 1] if r[1] and 0 < r[1] <= len(t) else {}
            if "timeout" in (r[2] or ""): raise ToolError("trace validation timed out")
            run.violation({"layer": "trace", "what": "execution is not a behaviour of SLG.tla", "event": ev.get("ev"), "src": label},
                          dict(rp, rejected_at=r[1], detail=r[2][:500], events_before=t[max(0, (r[1] or 1) - 4):(r[1] or 1)]))

def goals_atoms(p): return ground.all_atoms(p)
def goals_atoms_and_not(p):
    a = ground.all_atoms(p)
    co = set(p["co"])
    return a + ["n" + x[1:] for x in a if x not in co]
