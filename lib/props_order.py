"""C13 at the first-order level with several generic structs (ImplMC.tla): coherent programs, the meaning as a function of the set of
impls, the real solvers run on several declaration orders."""
import json, os, random
import harness, tlc, groundcheck as gc
from props_mem import run_tlc_mc
from common import seed, ToolError

def N(c): return {"c": c, "a": []}
def U(c, x): return {"c": c, "a": [x]}
T = N("T")
TR = {1: "H", 2: "P", 3: "G"}

def show(t):
    return t["c"] if not t["a"] else "%s<%s>" % (t["c"], show(t["a"][0]))
def tdepth(t):
    if t["c"] == "T": return 0
    d = max([tdepth(x) for x in t["a"]] or [-1])
    return d + 1 if d >= 0 else -1
def unifiable(p, q):
    return p["c"] == "T" or q["c"] == "T" or (p["c"] == q["c"] and len(p["a"]) == len(q["a"]) and all(unifiable(x, y) for x, y in zip(p["a"], q["a"])))
def coherent(impls):
    return not any(a["tr"] == b["tr"] and unifiable(a["head"], b["head"]) for i, a in enumerate(impls) for b in impls[i + 1:])

HEADS = [N("Z"), N("Y"), U("S1", T), U("S2", T), U("S1", T), U("S2", T), U("S1", N("Z")), U("S2", N("Y")), U("S1", U("S1", T)), U("S1", U("S2", T)),
         U("S2", U("S1", T)), T, T]
def wc_pool(head):
    d = tdepth(head)
    pool = [N("Z"), N("Y"), U("S1", N("Z")), U("S2", N("Z"))]
    if d >= 0: pool += [T, T, T]
    if d >= 1: pool += [U("S1", T), U("S2", T)]
    return pool

def layered(rnd):
    """the usual shape of real programs: per trait either one blanket impl (`impl<T> Tr for T where T: Tr'`) or a base case on a closed
    struct plus structural impls on the generic structs with a where-clause on the parameter"""
    impls = []
    for tr in (1, 2, 3):
        if rnd.random() < 0.3:
            impls.append({"tr": tr, "head": T, "wcs": [{"tr": rnd.choice([x for x in (1, 2, 3) if x != tr]), "ty": T}]}); continue
        if rnd.random() < 0.7: impls.append({"tr": tr, "head": N(rnd.choice("ZY")), "wcs": []})
        for s in ("S1", "S2"):
            if rnd.random() < 0.75:
                wcs = [{"tr": rnd.choice((1, 2, 3)), "ty": T}]
                if rnd.random() < 0.2: wcs.append({"tr": rnd.choice((1, 2, 3)), "ty": rnd.choice([T, U("S1", T), N("Z")])})
                impls.append({"tr": tr, "head": U(s, T), "wcs": wcs})
    rnd.shuffle(impls)
    return impls

def sample_program(rnd, pid):
    while True:
        impls = []
        if rnd.random() < 0.6:
            impls = layered(rnd)
            if len(impls) >= 3 and coherent(impls): break
            continue
        for _ in range(rnd.choice((3, 4, 5, 6, 6, 7))):
            head = rnd.choice(HEADS)
            wcs = [{"tr": rnd.choice((1, 2, 3)), "ty": rnd.choice(wc_pool(head))} for _ in range(rnd.choice((0, 1, 1, 1, 2)))]
            impls.append({"tr": rnd.choice((1, 2, 3)), "head": head, "wcs": wcs})
        if coherent(impls): break
    closed = [N("Z"), N("Y")]
    for s in (N("Z"), N("Y")):
        closed += [U("S1", s), U("S2", s), U("S1", U("S1", s)), U("S1", U("S2", s)), U("S2", U("S1", s)), U("S2", U("S2", s)), U("S1", U("S1", U("S2", s)))]
    goals = [{"tr": rnd.choice((1, 2, 3)), "ty": rnd.choice(closed)} for _ in range(10)]
    return {"id": pid, "impls": impls, "goals": goals}

OPEN_GOALS = ["exists<T> { T: H }", "exists<T> { T: P }", "exists<T> { T: G }", "exists<T> { T: G, T: H }", "exists<T> { T: H, T: P }", "exists<T> { T: P, T: G }",
              "exists<T> { T: H, T: G }", "exists<T> { T: P, T: H }", "exists<T> { T: G, T: P }",
              "exists<T> { S1<T>: H }", "exists<T> { S2<T>: G }", "exists<T> { S1<T>: G, T: P }", "exists<T> { S2<T>: H, T: H }",
              "forall<T> { if (T: P) { S1<T>: H } }", "forall<T> { if (T: H) { S2<T>: G } }", "forall<T> { if (T: G; T: P) { T: H } }",
              "exists<T> { S1<S2<T>>: H }"]

def render(p, order, wcrev, decls_last):
    decls = ["struct Z {}", "struct Y {}", "struct S1<T> {}", "struct S2<T> {}", "trait H {}", "trait P {}", "trait G {}"]
    impls = []
    for i in order:
        im = p["impls"][i]
        wcs = list(reversed(im["wcs"])) if wcrev else im["wcs"]
        gen = "<T>" if tdepth(im["head"]) >= 0 else ""
        wc = (" where " + ", ".join("%s: %s" % (show(w["ty"]), TR[w["tr"]]) for w in wcs)) if wcs else ""
        impls.append("impl%s %s for %s%s {}" % (gen, TR[im["tr"]], show(im["head"]), wc))
    return " ".join(impls + decls if decls_last else decls + impls)

CFG = "SPECIFICATION Spec\nINVARIANTS FamilyCoherent OrderIrrelevant OneImplApplies Replay\nCHECK_DEADLOCK FALSE\n"

def order_generic(run, tier):
    from concurrent.futures import ThreadPoolExecutor
    rnd = random.Random(seed() * 31 + 7)
    n = 150 if tier == "quick" else 1500
    nperm = 6 if tier == "quick" else 10
    progs = [sample_program(rnd, i) for i in range(n)]
    os.makedirs(tlc.WORK, exist_ok=True)
    CH = 300
    chunks = [progs[i:i + CH] for i in range(0, len(progs), CH)]
    def mc(k):
        inp = os.path.join(tlc.WORK, "inputs_C13impl_%d.ndjson" % k)
        with open(inp, "w") as f:
            for p in chunks[k]: f.write(json.dumps(p) + "\n")
        out = run_tlc_mc(run, "ImplMC", CFG, "C13impl%d" % k, {"INPUTS": inp}, timeout=1500, workers=2, xmx="3g")
        os.unlink(inp)
        return out
    with ThreadPoolExecutor(max_workers=6) as ex: outs = list(ex.map(mc, range(len(chunks))))
    if any(o is None for o in outs): return
    recs = {r["id"]: r for o in outs for r in gc.parse_replay(o)}
    if len(recs) != len(progs): raise ToolError("ImplMC: %d records for %d programs" % (len(recs), len(progs)))
    for solver in (gc.SLG, gc.REC):
        sname = gc.solver_name(solver)
        jobs, meta = [], []
        for p in progs:
            m = len(p["impls"])
            orders = [list(range(m)), list(reversed(range(m)))]
            while len(orders) < nperm:
                o = list(range(m)); rnd.shuffle(o)
                if o not in orders: orders.append(o)
            goals = ["%s: %s" % (show(g["ty"]), TR[g["tr"]]) for g in p["goals"]] + OPEN_GOALS
            for j, o in enumerate(orders):
                jobs.append({"id": len(jobs), "program": render(p, o, j % 3 == 1, j % 2 == 1), "solver": solver, "limits": True,
                             "ops": [{"op": "solve", "goal": g, "fresh": True} for g in goals]})
                meta.append((p, o, goals))
        obs = harness.run("solve", jobs, timeout=300)
        first = {}
        nlim = 0
        for (p, o, goals), job, ob in zip(meta, jobs, obs):
            base = {"solver": sname, "src": "order-generic"}
            if ob.get("error"):
                if str(ob["error"]).startswith("lowering"): raise ToolError("ImplMC program does not lower: %s: %s" % (job["program"], ob["error"]))
                run.case([p["id"], o, sname]); run.violation(dict(base, what="abort-or-hang"), {"program": job["program"], "solver": solver, "observed": ob}); continue
            truth = recs[p["id"]]["truth"]
            for gi, (g, r) in enumerate(zip(goals, ob["results"])):
                run.case([p["id"], o, gi, sname], nontrivial=(o != sorted(o)))
                rp = {"program": job["program"], "goal": g, "solver": solver, "order": o, "observed": r}
                if r.get("class") == "Panic":
                    run.violation(dict(base, what="panic", text=str(r.get("text"))[:60]), rp); continue
                if gi < len(truth):
                    exp = "Unique" if truth[gi] else "None"
                    if r.get("class") != exp:
                        run.violation(dict(base, what="closed goal: answer differs from the least-fixed-point meaning", expected=exp, observed=r.get("class")), rp); continue
                if r.get("limits", 0) > 0:                      # the property's proviso: the search ran into a size limit
                    nlim += 1; continue
                ref = first.setdefault((p["id"], gi), (r.get("text"), job["program"]))
                if r.get("text") != ref[0]:
                    run.violation(dict(base, what="answer depends on the declaration order", goal=g), dict(rp, other_order_program=ref[1], other_order_answer=ref[0]))
                else: run.traces += 1
            run.sample({"program": job["program"], "solver": sname, "goals": goals[10:16], "impl": [x.get("text") for x in ob["results"][10:16]]}, cap=3)
        run.extra["generic_struct_answers_beyond_size_limits_" + sname] = nlim
    run.extra["generic_struct_programs"] = len(progs)
    run.extra["generic_struct_orders_per_program"] = nperm
