"""C13 at the first-order level with several generic structs (ImplMC.tla): coherent programs, the meaning as a function of the set of
impls, the real solvers run on several declaration orders."""
import json, math, os, random
import harness, tlc, groundcheck as gc
from props_mem import run_tlc_mc
from common import seed, ToolError

def N(c): return {"c": c, "a": []}
def U(c, x): return {"c": c, "a": [x]}
T = N("T")
TR = {1: "H", 2: "P", 3: "G"}

def show(t):
    return t["c"] if not t["a"] else "%s<%s>" % (t["c"], show(t["a"][0]))
def tdepth(t):
    if t["c"] == "T": return 0
    d = max([tdepth(x) for x in t["a"]] or [-1])
    return d + 1 if d >= 0 else -1
def unifiable(p, q):
    return p["c"] == "T" or q["c"] == "T" or (p["c"] == q["c"] and len(p["a"]) == len(q["a"]) and all(unifiable(x, y) for x, y in zip(p["a"], q["a"])))
def coherent(impls):
    return not any(a["tr"] == b["tr"] and unifiable(a["head"], b["head"]) for i, a in enumerate(impls) for b in impls[i + 1:])

HEADS = [N("Z"), N("Y"), U("S1", T), U("S2", T), U("S1", T), U("S2", T), U("S1", N("Z")), U("S2", N("Y")), U("S1", U("S1", T)), U("S1", U("S2", T)),
         U("S2", U("S1", T)), T, T]
def wc_pool(head):
    d = tdepth(head)
    pool = [N("Z"), N("Y"), U("S1", N("Z")), U("S2", N("Z"))]
    if d >= 0: pool += [T, T, T]
    if d >= 1: pool += [U("S1", T), U("S2", T)]
    return pool

def layered(rnd):
    """the usual shape of real programs: per trait either one blanket impl (`impl<T> Tr for T where T: Tr'`) or a base case on a closed
    struct plus structural impls on the generic structs with a where-clause on the parameter"""
    impls = []
    for tr in (1, 2, 3):
        if rnd.random() < 0.3:
            impls.append({"tr": tr, "head": T, "wcs": [{"tr": rnd.choice([x for x in (1, 2, 3) if x != tr]), "ty": T}]}); continue
        if rnd.random() < 0.7: impls.append({"tr": tr, "head": N(rnd.choice("ZY")), "wcs": []})
        for s in ("S1", "S2"):
            if rnd.random() < 0.75:
                wcs = [{"tr": rnd.choice((1, 2, 3)), "ty": T}]
                if rnd.random() < 0.35: wcs.append({"tr": rnd.choice((1, 2, 3)), "ty": rnd.choice([T, T, U("S1", T), N("Z")])})
                impls.append({"tr": tr, "head": U(s, T), "wcs": wcs})
    rnd.shuffle(impls)
    return impls

def finite(rnd):
    """finite answer sets with several answers: one trait implemented for 3..6 closed types (several of them sharing a constructor), the others
    defined from it without recursion"""
    closed = [N("Z"), N("Y"), U("S1", N("Z")), U("S1", N("Y")), U("S2", N("Z")), U("S2", N("Y")), U("S1", U("S1", N("Z"))), U("S1", U("S2", N("Y"))), U("S2", U("S1", N("Y")))]
    base = rnd.choice((1, 2, 3))
    others = [t for t in (1, 2, 3) if t != base]
    # some of the closed impls have a where-clause on another closed type (which may fail: a strand that dead-ends between two answers)
    impls = [{"tr": base, "head": h, "wcs": ([{"tr": rnd.choice((1, 2, 3)), "ty": rnd.choice(closed[:4])}] if rnd.random() < 0.35 else [])}
             for h in rnd.sample(closed, rnd.choice((3, 4, 4, 5, 6)))]
    if rnd.random() < 0.5:
        # a trait with a single closed impl and a consumer whose where-clauses mix it with the many-answer trait (one where-clause decides
        # the unknown, another stays ambiguous until then)
        one, cons = others if rnd.random() < 0.5 else reversed(others)
        impls.append({"tr": one, "head": rnd.choice([im["head"] for im in impls]), "wcs": []})
        wcs = [{"tr": rnd.choice((base, one)), "ty": T} for _ in range(rnd.choice((2, 3, 3)))]
        impls.append({"tr": cons, "head": U(rnd.choice(("S1", "S2")), T), "wcs": wcs})
        rnd.shuffle(impls)
        return impls
    for tr in others:
        k = rnd.random()
        if k < 0.4: impls.append({"tr": tr, "head": T, "wcs": [{"tr": base, "ty": T}]})
        elif k < 0.8:
            wcs = [{"tr": base, "ty": T}]
            if rnd.random() < 0.5: wcs.append({"tr": rnd.choice((1, 2, 3)), "ty": rnd.choice([T, N("Z")])})
            if len(wcs) == 2 and rnd.random() < 0.5: wcs.append({"tr": rnd.choice((1, 2, 3)), "ty": T})
            impls.append({"tr": tr, "head": U(rnd.choice(("S1", "S2")), T), "wcs": wcs})
            if rnd.random() < 0.5: impls.append({"tr": tr, "head": N(rnd.choice("ZY")), "wcs": []})
        else: impls += [{"tr": tr, "head": h, "wcs": []} for h in rnd.sample(closed, 2)]
    rnd.shuffle(impls)
    return impls

def cyclic(impls):
    """a trait depends on itself through where-clauses (the recursive solver's answers for goals with unknowns then come out of a
    fixed-point iteration)"""
    dep = {t: {w["tr"] for im in impls if im["tr"] == t for w in im["wcs"]} for t in (1, 2, 3)}
    for t in (1, 2, 3):
        seen, todo = set(), list(dep[t])
        while todo:
            x = todo.pop()
            if x == t: return True
            if x not in seen: seen.add(x); todo += list(dep[x])
    return False

def sample_program(rnd, pid, finite_share=0.2):
    while True:
        impls = []
        if rnd.random() < finite_share:
            impls = finite(rnd)
            if coherent(impls): break
            continue
        if rnd.random() < 0.6:
            impls = layered(rnd)
            if len(impls) >= 3 and coherent(impls): break
            continue
        for _ in range(rnd.choice((3, 4, 5, 6, 6, 7))):
            head = rnd.choice(HEADS)
            # (impls with three where-clauses only occur in the acyclic `finite` programs: on cyclic ones the recursive solver's nested
            # fixed-point iterations do not finish within the watchdog -- known finding KF15-C09)
            wcs = [{"tr": rnd.choice((1, 2, 3)), "ty": rnd.choice(wc_pool(head))} for _ in range(rnd.choice((0, 1, 1, 1, 2)))]
            impls.append({"tr": rnd.choice((1, 2, 3)), "head": head, "wcs": wcs})
        if coherent(impls): break
    closed = [N("Z"), N("Y")]
    for s in (N("Z"), N("Y")):
        closed += [U("S1", s), U("S2", s), U("S1", U("S1", s)), U("S1", U("S2", s)), U("S2", U("S1", s)), U("S2", U("S2", s)), U("S1", U("S1", U("S2", s)))]
    goals = [{"tr": rnd.choice((1, 2, 3)), "ty": rnd.choice(closed)} for _ in range(10)]
    return {"id": pid, "impls": impls, "goals": goals, "open": OPEN_CONJ}

def C(tr, ty): return {"tr": tr, "ty": ty}
# goals `exists<T> { .. }` as conjunct lists (H = 1, P = 2, G = 3): ImplMC.tla computes their solutions among the closed types of depth <= 3
OPEN_CONJ = [[C(1, T)], [C(2, T)], [C(3, T)], [C(3, T), C(1, T)], [C(1, T), C(2, T)], [C(2, T), C(3, T)],
             [C(1, T), C(3, T)], [C(2, T), C(1, T)], [C(3, T), C(2, T)],
             [C(1, U("S1", T))], [C(3, U("S2", T))], [C(3, U("S1", T)), C(2, T)], [C(1, U("S2", T)), C(1, T)], [C(1, U("S1", U("S2", T)))]]
OPEN_GOALS = ["exists<T> { %s }" % ", ".join("%s: %s" % (show(c["ty"]), TR[c["tr"]]) for c in conj) for conj in OPEN_CONJ] + \
             ["forall<T> { if (T: P) { S1<T>: H } }", "forall<T> { if (T: H) { S2<T>: G } }", "forall<T> { if (T: G; T: P) { T: H } }"]

def parse_ty(s):
    """`S1<S2<Z>>` / `S1<^0.0>` -> term (a bound variable becomes T)"""
    s = s.strip()
    if s.startswith("^"): return T
    if "<" in s:
        c, rest = s.split("<", 1)
        return U(c, parse_ty(rest[:-1]))
    return N(s)
def instance_of(t, pat):
    if pat["c"] == "T": return True
    return t["c"] == pat["c"] and len(t["a"]) == len(pat["a"]) and all(instance_of(x, y) for x, y in zip(t["a"], pat["a"]))
def depth(t): return 0 if not t["a"] else 1 + depth(t["a"][0])
def answer_pattern(text):
    """the pattern an answer text gives for ?0, or None"""
    import re
    m = re.search(r"\?0 := ([^,\]]+)", text or "")
    return parse_ty(m.group(1)) if m else None

def judge_open(r, sols, maxdepth=3):
    """the C01 statement on an answer to a goal with one unknown, given its solutions among the closed types of depth <= maxdepth;
    returns a description of the violation or None"""
    cls = r.get("class")
    if cls == "None": return "No possible solution although the goal has solutions" if sols else None
    if cls in ("Unique", "Definite"):
        pat = answer_pattern(r.get("text"))
        if pat is None: return None
        missing = [s for s in sols if not instance_of(s, pat)]
        if missing: return ("Unique answer" if cls == "Unique" else "definite guidance") + " excludes the solution " + show(missing[0])
        if cls == "Unique":
            if pat["c"] != "T" and "T" not in json.dumps(pat) and depth(pat) <= maxdepth and pat not in sols: return "Unique answer is not a solution"
    return None

def render(p, order, wcrev, decls_last):
    """wcrev: False (where-clauses as listed), True (reversed) or an int (a permutation of each impl's where-clauses chosen by that number)"""
    decls = ["struct Z {}", "struct Y {}", "struct S1<T> {}", "struct S2<T> {}", "trait H {}", "trait P {}", "trait G {}"]
    impls = []
    for i in order:
        im = p["impls"][i]
        if wcrev is True: wcs = list(reversed(im["wcs"]))
        elif wcrev is False: wcs = im["wcs"]
        else:
            wcs = list(im["wcs"]); random.Random(wcrev * 7 + i).shuffle(wcs)
        gen = "<T>" if tdepth(im["head"]) >= 0 else ""
        wc = (" where " + ", ".join("%s: %s" % (show(w["ty"]), TR[w["tr"]]) for w in wcs)) if wcs else ""
        impls.append("impl%s %s for %s%s {}" % (gen, TR[im["tr"]], show(im["head"]), wc))
    return " ".join(impls + decls if decls_last else decls + impls)

CFG = "SPECIFICATION Spec\nINVARIANTS FamilyCoherent OrderIrrelevant OneImplApplies Replay\nCHECK_DEADLOCK FALSE\n"

def implmc_records(run, progs, tag):
    """model-check ImplMC on the programs (in chunks, in parallel); returns {id: record} or None after a spec-level violation"""
    from concurrent.futures import ThreadPoolExecutor
    os.makedirs(tlc.WORK, exist_ok=True)
    CH = 300
    chunks = [progs[i:i + CH] for i in range(0, len(progs), CH)]
    def mc(k):
        inp = os.path.join(tlc.WORK, "inputs_%s_%d.ndjson" % (tag, k))
        with open(inp, "w") as f:
            for p in chunks[k]: f.write(json.dumps(p) + "\n")
        out = run_tlc_mc(run, "ImplMC", CFG, "%s%d" % (tag, k), {"INPUTS": inp}, timeout=1500, workers=2, xmx="3g")
        os.unlink(inp)
        return out
    with ThreadPoolExecutor(max_workers=6) as ex: outs = list(ex.map(mc, range(len(chunks))))
    if any(o is None for o in outs): return None
    recs = {r["id"]: r for o in outs for r in gc.parse_replay(o)}
    if len(recs) != len(progs): raise ToolError("ImplMC: %d records for %d programs" % (len(recs), len(progs)))
    return recs

def order_generic(run, tier, nperm=None, n=None, tag="C13impl", salt=7):
    """nperm = 1: only the soundness / completeness judgement of each answer (C01); > 1: also equality across declaration orders (C13)"""
    from concurrent.futures import ThreadPoolExecutor
    rnd = random.Random(seed() * 31 + salt)
    n = n or (150 if tier == "quick" else 1500)
    nperm = nperm or (6 if tier == "quick" else 10)
    progs = [sample_program(rnd, i) for i in range(n)]
    os.makedirs(tlc.WORK, exist_ok=True)
    CH = 300
    chunks = [progs[i:i + CH] for i in range(0, len(progs), CH)]
    def mc(k):
        inp = os.path.join(tlc.WORK, "inputs_%s_%d.ndjson" % (tag, k))
        with open(inp, "w") as f:
            for p in chunks[k]: f.write(json.dumps(p) + "\n")
        out = run_tlc_mc(run, "ImplMC", CFG, "%s%d" % (tag, k), {"INPUTS": inp}, timeout=1500, workers=2, xmx="3g")
        os.unlink(inp)
        return out
    with ThreadPoolExecutor(max_workers=6) as ex: outs = list(ex.map(mc, range(len(chunks))))
    if any(o is None for o in outs): return
    recs = {r["id"]: r for o in outs for r in gc.parse_replay(o)}
    if len(recs) != len(progs): raise ToolError("ImplMC: %d records for %d programs" % (len(recs), len(progs)))
    for solver in (gc.SLG, gc.REC):
        sname = gc.solver_name(solver)
        jobs, meta = [], []
        for p in progs:
            m = len(p["impls"])
            orders = [list(range(m)), list(reversed(range(m)))][:nperm]
            while len(orders) < min(nperm, math.factorial(m)):
                o = list(range(m)); rnd.shuffle(o)
                if o not in orders: orders.append(o)
            goals = ["%s: %s" % (show(g["ty"]), TR[g["tr"]]) for g in p["goals"]] + OPEN_GOALS
            for j, o in enumerate(orders):
                jobs.append({"id": len(jobs), "program": render(p, o, (False, True)[j] if j < 2 else j, j % 2 == 1), "solver": solver, "limits": True,
                             "ops": [{"op": "solve", "goal": g, "fresh": True} for g in goals]})
                meta.append((p, o, goals))
        obs = harness.run("solve", jobs, timeout=300)
        first = {}
        nlim = 0
        for (p, o, goals), job, ob in zip(meta, jobs, obs):
            base = {"solver": sname, "src": "order-generic"}
            if ob.get("error"):
                if str(ob["error"]).startswith("lowering"): raise ToolError("ImplMC program does not lower: %s: %s" % (job["program"], ob["error"]))
                run.case([p["id"], o, sname]); run.violation(dict(base, what="abort-or-hang", rec_cyclic=(sname != "slg" and cyclic(p["impls"]))), {"program": job["program"], "solver": solver, "observed": ob}); continue
            truth = recs[p["id"]]["truth"]
            for gi, (g, r) in enumerate(zip(goals, ob["results"])):
                run.case([p["id"], o, gi, sname], nontrivial=(o != sorted(o)))
                rp = {"program": job["program"], "goal": g, "solver": solver, "order": o, "observed": r}
                if r.get("class") == "Panic":
                    run.violation(dict(base, what="panic", text=str(r.get("text"))[:60]), rp); continue
                if gi < len(truth):
                    exp = "Unique" if truth[gi] else "None"
                    if r.get("class") != exp:
                        run.violation(dict(base, what="closed goal: answer differs from the least-fixed-point meaning", expected=exp, observed=r.get("class")), rp); continue
                if len(truth) <= gi < len(truth) + len(OPEN_CONJ):
                    why = judge_open(r, recs[p["id"]]["sols"][gi - len(truth)])
                    if why:
                        run.violation(dict(base, what="goal with an unknown: " + why.split(" excludes the solution")[0], goal=g), dict(rp, why=why, solutions=[show(x) for x in recs[p["id"]]["sols"][gi - len(truth)]][:8])); continue
                if r.get("limits", 0) > 0:                      # the property's proviso: the search ran into a size limit
                    nlim += 1; continue
                ref = first.setdefault((p["id"], gi), (r.get("text"), job["program"]))
                if r.get("text") != ref[0]:
                    # both answers passed the judgement against the meaning: they differ in precision.  For the recursive solver on programs
                    # whose traits depend on themselves this is a known finding (KF14-C13): the answer comes out of a fixed-point iteration
                    # that stops at the first ambiguous round, and which round that is depends on the order of the clauses.
                    frag = "cyclic" if cyclic(p["impls"]) else "acyclic"
                    run.violation(dict(base, what="answer depends on the declaration order", fragment=frag), dict(rp, other_order_program=ref[1], other_order_answer=ref[0]))
                else: run.traces += 1
            run.sample({"program": job["program"], "solver": sname, "goals": goals[10:16], "impl": [x.get("text") for x in ob["results"][10:16]]}, cap=3)
        run.extra["generic_struct_answers_beyond_size_limits_" + sname] = nlim
    run.extra["generic_struct_programs"] = len(progs)
    run.extra["generic_struct_orders_per_program"] = nperm

def closed_instances(pat, maxdepth=3):
    """closed instances of a pattern over Z, Y, S1, S2 up to the depth bound"""
    uni = [N("Z"), N("Y")]
    for _ in range(3): uni = uni + [U(k, t) for k in ("S1", "S2") for t in uni if U(k, t) not in uni]
    def sub(p, x): return x if p["c"] == "T" else {"c": p["c"], "a": [sub(a, x) for a in p["a"]]}
    if "T" not in json.dumps(pat): return [pat] if depth(pat) <= maxdepth else []
    return [t for t in (sub(pat, x) for x in uni) if depth(t) <= maxdepth]

def streams_generic(run, tier):
    """C03 on the ImplMC family: solve_multiple streams (SLG) judged against the solutions among the closed types of depth <= 3"""
    from concurrent.futures import ThreadPoolExecutor
    rnd = random.Random(seed() * 37 + 23)
    n = 150 if tier == "quick" else 1500
    progs = [sample_program(rnd, i) for i in range(n)]
    os.makedirs(tlc.WORK, exist_ok=True)
    CH = 300
    chunks = [progs[i:i + CH] for i in range(0, len(progs), CH)]
    def mc(k):
        inp = os.path.join(tlc.WORK, "inputs_C03impl_%d.ndjson" % k)
        with open(inp, "w") as f:
            for p in chunks[k]: f.write(json.dumps(p) + "\n")
        out = run_tlc_mc(run, "ImplMC", CFG, "C03impl%d" % k, {"INPUTS": inp}, timeout=1500, workers=2, xmx="3g")
        os.unlink(inp)
        return out
    with ThreadPoolExecutor(max_workers=6) as ex: outs = list(ex.map(mc, range(len(chunks))))
    if any(o is None for o in outs): return
    recs = {r["id"]: r for o in outs for r in gc.parse_replay(o)}
    goals = OPEN_GOALS[:len(OPEN_CONJ)]
    jobs = [{"id": p["id"], "program": render(p, list(range(len(p["impls"]))), False, False), "solver": gc.SLG,
             "ops": [{"op": "multi", "goal": g, "fresh": True, "max": 40} for g in goals]} for p in progs]
    obs = harness.run("solve", jobs, timeout=300)
    for p, job, ob in zip(progs, jobs, obs):
        base = {"src": "streams-generic"}
        if ob.get("error"):
            run.case([p["id"]]); run.violation(dict(base, what="abort-or-hang"), {"program": job["program"], "observed": ob}); continue
        for gi, (g, m) in enumerate(zip(goals, ob["results"])):
            sols = recs[p["id"]]["sols"][gi]
            run.case([p["id"], gi], nontrivial=bool(sols))
            rp = {"program": job["program"], "goal": g, "expected_solutions": [show(s) for s in sols], "observed": m}
            if m.get("class") == "Panic":
                run.violation(dict(base, what="solve_multiple panics", text=str(m.get("text"))[:80]), rp); continue
            items = m.get("items", [])
            pats = [answer_pattern("?0 := " + it["text"].split(":=", 1)[1]) if it["kind"] != "Floundered" and ":=" in it["text"] else None for it in items]
            bad = False
            for it, pat in zip(items, pats):
                if it["kind"] == "Definite" and pat is not None:
                    wrong = [t for t in closed_instances(pat) if t not in sols]
                    if wrong: bad |= run.violation(dict(base, what="an enumerated answer has an instance that is not a solution", goal=g), dict(rp, wrong=show(wrong[0])))
            texts = [it["text"] for it in items if it["kind"] != "Floundered"]
            if len(set(texts)) != len(texts): bad |= run.violation(dict(base, what="an answer is yielded twice", goal=g), rp)
            if m.get("class") == "Done" and not any(it["kind"] == "Floundered" for it in items):
                lost = [s for s in sols if not any(pt is not None and instance_of(s, pt) for pt in pats)]
                if lost: bad |= run.violation(dict(base, what="a solution is never yielded", goal=g), dict(rp, lost=[show(s) for s in lost][:3]))
            if not bad: run.traces += 1
            if sols: run.sample({"program": job["program"], "goal": g, "solutions": [show(s) for s in sols][:6], "stream": [[it["kind"], it["text"]] for it in items][:6]}, cap=3)
    run.extra["generic_struct_programs"] = len(progs)

def history_generic(run, tier):
    """C10 on the ImplMC / MiniMC families: goals with unknowns (several answers, aggregated guidance) asked as histories on ONE solver
    (each goal twice, in two different orders) must be answered exactly as a fresh solver answers them, and as the meaning demands"""
    import props_mini as pm
    rnd = random.Random(seed() * 41 + 29)
    n = 260 if tier == "quick" else 1500
    progs, impl = [], []
    for i in range(n):
        p = sample_program(rnd, i, finite_share=0.5); impl.append(p)
        progs.append((render(p, list(range(len(p["impls"]))), False, False), ["%s: %s" % (show(g["ty"]), TR[g["tr"]]) for g in p["goals"][:4]] + OPEN_GOALS,
                      "cyclic" if cyclic(p["impls"]) else "acyclic", i))
    recs = implmc_records(run, impl, "C10impl")
    if recs is None: return
    for p in pm.sample_programs(n, rnd, False):
        if pm.co_generic(p) or not pm.mini_coherent(p): continue         # overlapping impls: the order of answers decides (see C13)
        progs.append((pm.render_mini(p), list(pm.GOALS), "mini", None))
    nh = 0
    for solver in (gc.SLG, gc.REC):
        sname = gc.solver_name(solver)
        jobs = []
        for text, goals, frag, pid in progs:
            jobs.append({"id": len(jobs), "program": text, "solver": solver, "limits": True, "ops": [{"op": "solve", "goal": g, "fresh": True} for g in goals]})
            h1 = list(range(len(goals))) + list(range(len(goals)))
            h2 = list(reversed(range(len(goals)))) + list(range(len(goals)))
            rnd.shuffle(h2)
            for h in (h1, h2):
                jobs.append({"id": len(jobs), "program": text, "solver": solver, "limits": True, "hist": h, "ops": [{"op": "solve", "goal": goals[i]} for i in h]})
        obs = harness.run("solve", jobs, timeout=300)
        it = iter(zip(jobs, obs))
        for text, goals, frag, pid in progs:
            _, fresh = next(it)
            hist = [next(it), next(it)]
            base = {"solver": sname, "src": "history-generic"}
            if fresh.get("error"):
                run.case([text, sname]); run.violation(dict(base, what="abort-or-hang", rec_cyclic=(sname != "slg" and frag == "cyclic")), {"program": text, "solver": solver, "observed": fresh}); continue
            for job, o in hist:
                run.case([text, job["hist"], sname], nontrivial=True)
                if o.get("error"):
                    run.violation(dict(base, what="abort-or-hang", op="history", rec_cyclic=(sname != "slg" and frag == "cyclic")), {"program": text, "solver": solver, "history": [goals[i] for i in job["hist"]], "observed": o}); continue
                bad = False
                for pos, (gi, r) in enumerate(zip(job["hist"], o["results"])):
                    f = fresh["results"][gi]
                    if r.get("text") != f.get("text"):
                        bad = True
                        # did a size limit cut the search short -- in the fresh solve, or anywhere in the history so far (a table that has
                        # floundered stays floundered for later queries)?
                        lim = f.get("limits", 0) > 0 or any(x.get("limits", 0) > 0 for x in o["results"][:pos + 1])
                        # recursive solver, cyclic program, both answers ambiguous: only the guidance differs (known finding KF16-C10: a fixed-point
                        # loop that stops unconverged gives no guidance, F26; with the subgoals already cached there is no loop)
                        # the same goes for `No possible solution` vs `Ambiguous` as long as both answers are right by the meaning (ImplMC.tla)
                        amb = ("Unknown", "Definite", "Suggested")
                        kind = "guidance only" if r.get("class") in amb and f.get("class") in amb else "answer"
                        if kind == "answer" and pid is not None and 4 <= gi < 4 + len(OPEN_CONJ):
                            sols = recs[pid]["sols"][gi - 4]
                            if judge_open(r, sols) is None and judge_open(f, sols) is None and "Unique" not in (r.get("class"), f.get("class")):
                                kind = "precision only"
                        run.violation(dict(base, what="answer on a used solver differs from a fresh solver's", limits=lim, fragment=frag, differs=kind),
                                      {"program": text, "solver": solver, "history": [goals[i] for i in job["hist"][:pos + 1]], "fresh": f, "observed": r}); break
                if not bad: run.traces += 1; nh += 1
    run.extra["first_order_history_programs"] = len(progs)
    run.extra["first_order_histories_ok"] = nh
