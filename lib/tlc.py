"""Running TLC (model checking, trace validation) and parsing its output."""
import os, re, subprocess, tempfile, json, shutil, time

SPEC = os.path.join(os.path.dirname(os.path.dirname(os.path.abspath(__file__))), "spec")
WORK = os.path.join(os.path.dirname(os.path.dirname(os.path.abspath(__file__))), "work")
JAR = "/opt/veriftools/tla/tla2tools.jar"

class TlcResult:
    def __init__(self, rc, out, wall):
        self.rc, self.out, self.wall = rc, out, wall
        m = re.search(r"(\d+) states generated, (\d+) distinct states found", out)
        self.generated = int(m.group(1)) if m else 0
        self.distinct = int(m.group(2)) if m else 0
        m = re.search(r"The depth of the complete state graph search is (\d+)", out)
        self.depth = int(m.group(1)) if m else 0
        self.timeout = False
        self.invariant_violated = re.findall(r"Invariant (\w+) is violated", out)
        self.errors = [l for l in out.splitlines() if l.startswith("Error:")]
        self.finished = "Model checking completed" in out or "Finished in" in out
    @property
    def ok(self):
        return self.rc == 0 and not self.errors and not self.invariant_violated
    def printed(self, tag):
        """Values printed with PrintT(<<tag, ...>>): returns list of the raw tuple texts."""
        text = "\n".join(l for l in self.out.splitlines() if not l.startswith("Progress("))
        res = []
        for m in re.finditer(r'<<\s*"%s"\s*,' % re.escape(tag), text):
            i = m.start(); depth = 0; j = i
            while j < len(text):
                if text.startswith("<<", j): depth += 1; j += 2; continue
                if text.startswith(">>", j):
                    depth -= 1; j += 2
                    if depth == 0: break
                    continue
                if text[j] == '"':
                    j += 1
                    while j < len(text) and text[j] != '"':
                        j += 2 if text[j] == '\\' else 1
                j += 1
            res.append(text[i:j])
        return res

def tlc(module, cfg=None, env=None, workers=8, timeout=600, xmx="8g", extra=(), deque=False, simulate=None, coverage=False):
    """Run TLC on spec/<module>.tla with spec/<cfg>.  Returns TlcResult."""
    os.makedirs(WORK, exist_ok=True)
    meta = tempfile.mkdtemp(prefix="tlc_", dir=WORK)
    cfg = cfg or module + ".cfg"
    jopts = "-Xss1g"
    if deque:
        jopts += " -Dtlc2.tool.queue.IStateQueue=StateDeque"
    cmd = ["java", "-Xmx" + xmx, "-XX:+UseParallelGC"] + jopts.split() + ["-cp", JAR + ":/opt/veriftools/tla/CommunityModules-deps.jar", "tlc2.TLC",
           "-workers", str(workers), "-metadir", meta, "-noGenerateSpecTE", "-config", cfg]
    if coverage:
        cmd += ["-coverage", "1"]
    if simulate:
        cmd += ["-simulate", simulate]
    cmd += list(extra) + [module + ".tla"]
    e = dict(os.environ)
    if env: e.update(env)
    t0 = time.time()
    try:
        p = subprocess.run(cmd, cwd=SPEC, env=e, stdout=subprocess.PIPE, stderr=subprocess.STDOUT, timeout=timeout, text=True)
        r = TlcResult(p.returncode, p.stdout, time.time() - t0)
    except subprocess.TimeoutExpired as ex:
        out = ex.stdout.decode() if isinstance(ex.stdout, bytes) else (ex.stdout or "")
        r = TlcResult(124, out, time.time() - t0); r.timeout = True
    shutil.rmtree(meta, ignore_errors=True)
    return r

def validate_trace(events, module="SLGTrace", cfg=None, timeout=600, keep=None):
    """events: list of dicts (or JSON strings).  Returns (accepted, TlcResult, first_rejected_index)."""
    os.makedirs(WORK, exist_ok=True)
    fd, path = tempfile.mkstemp(prefix="trace_", suffix=".ndjson", dir=WORK)
    with os.fdopen(fd, "w") as f:
        for ev in events:
            f.write((ev if isinstance(ev, str) else json.dumps(ev)) + "\n")
    r = tlc(module, cfg, env={"TRACE": path}, workers=1, timeout=timeout, xmx="4g", deque=True)
    rej = None
    m = re.search(r'"TRACE-REJECTED at event",\s*(\d+)', r.out)
    if m: rej = int(m.group(1))
    accepted = r.ok and rej is None and not r.timeout and r.depth - 1 == len(events)
    if keep:
        shutil.copy(path, keep)
    os.unlink(path)
    return accepted, r, rej

def validate_many(traces, module="SLGTrace", cfg=None, timeout=900, chunk_events=20000, max_rejected=8):
    """traces: list of event lists.  Validates them in as few TLC runs as possible (traces are
    separated by Reset events).  Returns list of (accepted, rejected_event_index_within_trace, detail)."""
    results = [None] * len(traces)
    i = 0
    n = len(traces)
    while i < n:
        # take a chunk
        evs, idx, j = [], [], i
        while j < n and (len(evs) < chunk_events or j == i):
            if not traces[j]:
                results[j] = (True, None, "empty")
                j += 1
                continue
            idx.append((j, len(evs) + 1))          # trace j starts after its Reset at this 1-based line
            evs.append({"ev": "Reset"})
            evs.extend(traces[j])
            j += 1
        if not evs:
            break
        ok, r, rej = validate_trace(evs, module, cfg, timeout)
        if ok:
            for (k, _) in idx: results[k] = (True, None, "")
            i = j
            continue
        if rej is None:
            # evaluation error / timeout: find the state count reached
            rej = r.depth if r.depth else 1
        # which trace contains event `rej` (1-based line)?
        bad = idx[0][0]
        start = idx[0][1]
        for (k, st) in idx:
            if st <= rej: bad, start = k, st
        for (k, st) in idx:
            if k < bad: results[k] = (True, None, "")
        err = r.out[r.out.find("Error:"):][:600] if "Error:" in r.out else ("timeout" if r.timeout else "rejected")
        results[bad] = (False, rej - start, err)
        i = bad + 1
        if sum(1 for x in results if x is not None and not x[0]) >= max_rejected:
            # enough rejected executions to report: the rest is left unvalidated (not counted as accepted)
            for k in range(i, n):
                if results[k] is None: results[k] = (True, None, "skipped")
            break
    return results
