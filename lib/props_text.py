"""C23 (LogDb.tla), C24 (Lowering.tla), C22 (display round trip): properties of the text layer."""
import os, re, json, random
import tlc, harness, groundcheck as gc
from props import prop
from props_mem import run_tlc_mc, validate_concat
import props_mini
from common import seed, ToolError

def emit_event(text):
    structs = sorted(set(re.findall(r"\b(?:struct|enum|union)\s+(\w+)", text)))
    traits = sorted(set(re.findall(r"\btrait\s+(\w+)", text)))
    nimpls = len(re.findall(r"\bimpl\b", text))
    return {"ev": "Emit", "structs": structs, "traits": traits, "nimpls": nimpls}

@prop("C23")
def c23(run, tier):
    run.rule = ("LogDb.tla models the recording wrapper (Serve records, Emit prints what was recorded plus stubs); TLC checks EmitCoversServed / EmitAlwaysPossible on all "
                "serve sequences of the small model; sampled MiniMC.tla programs (generic and chain shapes, supertraits) with sequences of 5 goals, associated-type "
                "programs of AssocMC.tla and auto-trait programs over recursive structs are solved through the real LoggingRustIrDatabase (both solvers); the Serve events of the inner "
                "database and the items declared by the printed text are validated against LogDb.tla, the printed text must re-lower, and every goal must get "
                "the same answer on it as on the original program; non-trivial = the program has at least two impls; distinct = (program, goal sequence, solver)")
    run.assumptions = ["goal sequences are solved with a fresh solver per goal through one wrapper (the wrapper's record accumulates over the history)",
                       "trusted: TLC, the renderers, the Emit projection (names declared by the printed text)"]
    r = run_tlc_mc(run, "LogDbMC", "SPECIFICATION Spec\nCONSTANTS\n  MaxServes = 5\nINVARIANTS EmitCoversServed EmitAlwaysPossible\nCHECK_DEADLOCK FALSE\n", "C23", workers=4, timeout=600)
    if r is None: return
    rnd = random.Random(seed() * 29 + 13)
    big = tier == "thorough"
    inputs = []
    for p in props_mini.sample_programs(1200 if big else 220, rnd, True, chain_share=0.4):
        if props_mini.co_generic(p): continue
        goals = rnd.sample(props_mini.GOALS, 5)
        inputs.append((props_mini.render_mini(p), goals, len(p["impls"]) >= 2))
    import props_builtin
    aimpls = [[{"head": "Foo", "val": {"k": "Bar", "a": []}}, {"head": "V", "val": {"k": "pE", "a": [{"k": "T", "a": []}]}}],
              [{"head": "V", "val": {"k": "V", "a": [{"k": "pA", "a": [{"k": "T", "a": []}]}]}}, {"head": "Bar", "val": {"k": "Foo", "a": []}}]]
    for im in aimpls:
        inputs.append((props_builtin.render_assoc(im), ["exists<U> { Normalize(<V<Foo> as Tr>::A -> U) }", "Foo: Tr<A = Bar>", "exists<U> { Normalize(<V<V<Bar>> as Tr>::A -> U) }",
                                                        "exists<X> { X: Tr }", "V<Baz>: Elem"], True))
    # auto traits over (mutually) recursive structs with negative impls (C05 fragment)
    for k in range(40 if big else 8):
        fields = {i: rnd.sample([1, 2, 3], rnd.choice([0, 1, 2])) for i in (1, 2, 3)}
        neg = rnd.choice([[], [1], [3]])
        text = "#[auto] trait Send {} " + " ".join("struct S%d { %s }" % (i, ", ".join("f%d: S%d" % (j, x) for j, x in enumerate(fs))) for i, fs in fields.items()) + \
               " " + " ".join("impl !Send for S%d {}" % i for i in neg)
        inputs.append((text, ["S1: Send", "S2: Send", "S3: Send", "exists<X> { X: Send }"][:rnd.choice([2, 3, 3])], True))
    skipped = [0]
    for solver in (gc.SLG, gc.REC):
        sname = gc.solver_name(solver)
        jobs = [{"id": i, "program": prog, "solver": solver, "goals": goals} for i, (prog, goals, _) in enumerate(inputs)]
        obs = harness.run("logdb", jobs, timeout=180, par=10)
        traces = []
        for (prog, goals, nontrivial), job, o in zip(inputs, jobs, obs):
            run.case([prog, goals, sname], nontrivial=nontrivial)
            rp = {"program": prog, "goals": goals, "solver": solver, "observed": {k: v for k, v in o.items() if k != "events"}}
            err = o.get("error")
            if err and str(err).startswith("lowering"): continue
            if err:
                run.violation({"solver": sname, "what": "abort-or-hang", "detail": str(err)[:80]}, rp); continue
            if any(a == "PANIC" for a in o["first"]): continue          # panics of the solvers are C09's business
            bad = False
            if "relower_error" in o:
                bad |= run.violation({"solver": sname, "what": "the logged program does not parse / lower", "detail": o["relower_error"][:100]}, rp)
            else:
                for g, a, b in zip(goals, o["first"], o["second"]):
                    if a.startswith("goal error"): continue
                    if b.startswith("goal error"):
                        # the goal itself names an item the solver never asked the database for; it cannot be posed to the logged program
                        # (whatever WAS served must be printed: that is what the trace validation checks)
                        skipped[0] += 1; continue
                    if a != b:
                        bad |= run.violation({"solver": sname, "what": "the logged program gives a different answer", "goal": g[:80], "original": a[:80], "logged": b[:80]}, rp); break
            evs = [{"ev": "Serve", "kind": e["kind"], "id": e["id"], "name": e["name"]} for e in o.get("events", []) if e["ev"] == "Serve"]
            if not bad: traces.append((job, [{"ev": "Reset"}] + evs + [emit_event(o.get("logged", ""))], rp))
            if nontrivial and len(goals) > 1: run.sample({"program": prog[:200], "goals": goals[:3], "solver": sname, "answers": o["first"][:3], "logged_items": emit_event(o.get("logged", ""))}, cap=5)
        validate_concat(run, traces, "LogDbTrace", lambda job: {"solver": sname, "src": "logdb"})
    run.extra["inputs"] = len(inputs); run.extra["goals_not_expressible_on_the_logged_program"] = skipped[0]

# ------------------------------------------------------------------------------------ C24
L_DECLS = "struct S0 {} struct S1<T> {} struct SL<'a> {} struct SC<const N> {} trait Tr0 {} trait Tr1<T> {} trait TrA { type Item; } extern type F;"

def use_text(u):
    return u["n"] + (("<" + ", ".join(u["args"]) + ">") if u["args"] else "")

def site_text(rec):
    ty, tr, s = use_text(rec["ty"]), use_text(rec["tr"]), rec["site"]
    if s == "impl": return L_DECLS + " impl<T, const N> %s for %s {}" % (tr, ty), None
    if s == "field": return L_DECLS + " struct X<T, const N> { f: %s }" % ty, None
    if s == "assocval": return L_DECLS + " impl<T, const N> TrA for S1<T> { type Item = %s; }" % ty, None
    if s == "where": return L_DECLS + " struct X<T, const N> where %s: %s {}" % (ty, tr), None
    if s == "projection": return L_DECLS + " struct X<T, const N> { f: <%s as TrA>::Item }" % ty, None
    if s == "goal": return L_DECLS, "forall<T> { forall<const N> { %s: %s } }" % (ty, tr)
    return L_DECLS, "forall<T> { forall<const N> { exists<U> { Normalize(<%s as TrA>::Item -> U) } } }" % ty

EXTRA_LOWERING = [   # semantic errors outside the name model: duplicates, associated types, literals, attributes
    "struct S {} struct S {}", "trait T {} trait T {}", "struct S {} trait S {}", "trait Tr { type A; type A; }",
    "trait Tr { type A; } struct S {} impl Tr for S { type B = S; }", "trait Tr { type A; } struct S {} impl Tr for S { }",
    "trait Tr { type A; } struct S {} impl Tr for S { type A = S; type A = S; }", "trait Tr {} struct S {} impl Tr for S { type A = S; }",
    "struct S<T, T> {}", "struct S<'a, 'a> {}", "struct S<T> { f: [T; 99999999999] }", "struct S { f: [u32; 4294967296] }", "struct S { f: [u32; 3] }",
    "trait Tr {} struct S {} impl !Tr for S { }", "trait Tr { type A; } struct S {} impl !Tr for S { type A = S; }",
    "#[auto] trait Send { type A; }", "#[auto] trait Send<T> {}", "#[auto] trait Send where Self: Send {}", "#[fundamental] struct B<T, U> {}", "#[fundamental] struct B {}",
    "#[variance(Covariant, Covariant)] struct S<T> {}", "#[variance(Covariant)] struct S {}", "#[lang(nonsense)] trait X {}", "#[lang(sized)] trait A {} #[lang(sized)] trait B {}",
    "extern \"weird\" fn f();", "fn f<T>(x: T) -> Undefined;", "closure c(self,) {}", "opaque type X: Undefined = u32;", "opaque type X<T>: Clone = T;",
    "struct S {} impl S for S {}", "trait Tr {} impl Tr for Tr {}", "trait Tr<T> {} struct S {} impl Tr<Tr<S>> for S {}", "extern type A; struct S { f: A<u32> }",
    "trait Tr { type A<T>; } struct S {} impl Tr for S { type A = S; }", "trait Tr { type A; } struct S {} impl Tr for S { type A<T> = S; }",
    "struct S<const N> {} struct X { f: S<u32> }", "struct S<T> {} struct X { f: S<3> }", "struct S<'a> {} struct X { f: S<u32> }", "struct S<T> {} struct X<'a> { f: S<'a> }",
    "trait Tr { type A: Undefined; }", "trait Tr where Undefined: Tr {}", "struct S where S: Undefined {}", "struct S { f: dyn Undefined }", "struct S { f: dyn S }",
    "struct S { f: for<'a> fn(&'a Undefined) }", "struct S { f: &'undeclared u32 }", "struct S { f: *const Undefined }", "enum E { A(Undefined) }", "forall<T> { T: Undefined }",
    "forall<T> { Undefined: Clone if T: Clone }", "trait Clone {} forall<T> { T: Clone if T: Clone<T> }",
]
EXTRA_GOALS = ["Undefined: Tr0", "S0: Undefined", "S0<u32>: Tr0", "exists<T> { T<u32>: Tr0 }", "exists<'a> { 'a: Tr0 }", "exists<const N> { N: Tr0 }", "S1<'static>: Tr0", "SL<u32>: Tr0",
               "if (Undefined: Tr0) { S0: Tr0 }", "not { Undefined: Tr0 }", "S0 = Undefined", "Tr0 = S0", "exists<T> { T = Tr0 }", "Subtype(Undefined, S0)", "WellFormed(Undefined)",
               "WellFormed(S0: Undefined)", "FromEnv(Tr0)", "IsLocal(Undefined)", "Normalize(<S0 as Tr0>::Item -> S0)", "Normalize(<S0 as TrA>::Nope -> S0)", "S0: TrA<Item = Undefined>",
               "S0: TrA<Nope = S0>", "S0: Tr0<Item = S0>", "<S0 as TrA>::Item = S0", "<S0 as TrA>::Item<u32> = S0", "compatible { Undefined: Tr0 }", "exists<T> { dyn T: Tr0 }",
               "dyn S0: Tr0", "dyn Tr0 + 'nope: Tr0", "forall<'a> { &'a Undefined: Tr0 }", "[Undefined; 3]: Tr0", "[S0; N]: Tr0", "(Undefined,): Tr0", "fn(Undefined) -> S0: Tr0",
               "for<'a> fn(&'b S0): Tr0", "exists<T> { forall<T> { T: Tr0 } }", "F<u32>: Tr0", "Tr0<u32>: Tr0", "Tr1: Tr0", "S0: Tr1", "S0: Tr1<S0, S0>", "S0: Tr1<'static>", "S0: Tr1<3>"]

@prop("C24")
def c24(run, tier):
    run.rule = ("TLC enumerates (a) every use site of LoweringMC.tla: 7 kinds of sites x type reference (10 names: declared structs of each parameter kind, a trait, a foreign "
                "type, an undeclared name, a type / const parameter, a scalar; applied to 43 argument lists) x trait reference (6 names x 43 argument lists) with the "
                "predicted Ok / Err of name resolution, and (b) every sequence of up to MaxTokens tokens of a 45-token vocabulary; each is given to the real "
                "parse_program / parse_goal / program_ir / lower_goal inside catch_unwind: a panic is a violation; plus a fixed list of semantic-error programs and goals "
                "and seed-generated byte strings; non-trivial = the input resolves to Err or is longer than one token; distinct = input text")
    run.assumptions = ["a mismatch between the predicted Ok / Err and the implementation's is counted, not reported as a violation (the property only forbids panics)",
                       "arbitrary byte strings are sampled (seeded), not enumerated: the lexer level is outside what the TLA+ model adds",
                       "trusted: TLC, the renderer site_text"]
    big = tier == "thorough"
    stride = 1 if big else 6
    cfg = 'SPECIFICATION Spec\nCONSTANTS\n  Mode = "%s"\n  MaxTokens = %d\n  Stride = %d\n  Offset = %d\nINVARIANTS Consistent Replay\nCHECK_DEADLOCK FALSE\n'
    r = run_tlc_mc(run, "LoweringMC", cfg % ("names", 1, stride, seed() % stride), "C24n", workers=8, timeout=1800)
    if r is None: return
    recs = gc.parse_replay(r)
    jobs, meta = [], []
    for rec in recs:
        prog, goal = site_text(rec)
        jobs.append({"id": len(jobs), "program": prog, "solver": gc.SLG, "queries": [] if goal else ["program_ir"], "goals": [goal] if goal else []}); meta.append((rec, prog, goal))
    for text in EXTRA_LOWERING:
        jobs.append({"id": len(jobs), "program": text, "solver": gc.SLG, "queries": ["program_ir"], "goals": []}); meta.append((None, text, None))
    jobs.append({"id": len(jobs), "program": L_DECLS, "solver": gc.SLG, "queries": [], "goals": EXTRA_GOALS}); meta.append((None, L_DECLS, "*"))
    obs = harness.run("lower", jobs, timeout=300, chunk=300)
    mism = 0
    for (rec, prog, goal), o in zip(meta, obs):
        rs = []
        if o.get("error"):
            run.case([prog, goal]); run.violation({"what": "abort-or-hang", "detail": str(o["error"])[:80]}, {"program": prog, "goal": goal}); continue
        if goal == "*": rs = list(zip(EXTRA_GOALS, o["goals"]))
        elif goal: rs = [(goal, o["goals"][0])]
        else: rs = [(None, o["results"]["program_ir"])]
        for g, res in rs:
            run.case([prog, g], nontrivial=(rec is None or not rec["ok"]))
            if res["r"] == "panic":
                run.violation({"what": "lowering panics", "site": rec["site"] if rec else "fixed", "input": (g or prog[len(L_DECLS):] or prog)[:90], "text": res["text"][:70]}, {"program": prog, "goal": g, "observed": res})
                continue
            run.traces += 1
            if rec is not None and (res["r"] == "ok") != rec["ok"]: mism += 1
            if rec is not None and not rec["ok"]: run.sample({"input": (g or prog[len(L_DECLS):])[:100], "predicted": "Err", "impl": res["r"], "error": res["text"][:70]}, cap=6)
    run.extra["ok_err_predictions_differing"] = mism
    # token sequences
    r = run_tlc_mc(run, "LoweringMC", cfg % ("tokens", 3 if big else 2, 1, 0), "C24t", workers=8, timeout=1800)
    if r is None: return
    seqs = [" ".join(x["toks"]) for x in gc.parse_replay(r)]
    rnd = random.Random(seed())
    if big: seqs += [" ".join(rnd.choice(seqs).split() + rnd.choice(seqs).split()) for _ in range(60000)]
    else: seqs += [" ".join(rnd.choice(seqs).split() + rnd.choice(seqs).split() + rnd.choice(seqs).split()) for _ in range(20000)]
    # byte strings (seeded)
    alphabet = [chr(c) for c in range(32, 127)] + ["\\n", "\\t", "\\u00e9", "\\u4e2d", "\\0"]
    seqs += ["".join(rnd.choice(alphabet) for _ in range(rnd.choice([1, 2, 3, 5, 8, 13, 40]))) for _ in range(20000 if big else 4000)]
    items = [{"text": s, "as": a} for s in seqs for a in ("program", "goal")]
    pj = [{"id": i, "items": items[i:i + 4000]} for i in range(0, len(items), 4000)]
    for job, o in zip(pj, harness.run("parse", pj, timeout=300, chunk=1)):
        if o.get("error"):
            run.case([job["items"][0]["text"], "chunk"]); run.violation({"what": "abort-or-hang in the parser", "detail": str(o["error"])[:80]}, {"first_input": job["items"][0]}); continue
        for it, res in zip(job["items"], o["results"]):
            run.case([it["text"], it["as"]], nontrivial=len(it["text"].split()) > 1)
            if res["r"] == "panic": run.violation({"what": "parser panics", "as": it["as"], "input": it["text"][:80], "text": res.get("text", "")[:60]}, {"input": it})
            else: run.traces += 1
    run.exhaustive = False

# ------------------------------------------------------------------------------------ C22
D_PRELUDE = "trait Tr {} trait Tr2 {} trait It { type Item; } struct Base {} impl It for Base { type Item = Base; }"

def render_display(v):
    it = v["item"]
    out = [D_PRELUDE]
    if it == "adt":
        params = {"none": "", "T": "<T>", "lt T": "<'a, T>", "const": "<const N>", "T U": "<T, U>"}[v["params"]]
        nparams = {"none": 0, "T": 1, "lt T": 2, "const": 1, "T U": 2}[v["params"]]
        attrs = []
        if v["variance"]: attrs.append("#[variance(%s)]" % ", ".join(["Covariant", "Invariant"][:nparams]))
        if v["upstream"]: attrs.append("#[upstream]")
        if v["fundamental"]: attrs.append("#[fundamental]")
        if v["phantom"]: attrs.append("#[phantom_data]")
        if v["zst"]: attrs.append("#[one_zst]")
        attrs += {"none": [], "C": ["#[repr(C)]"], "packed": ["#[repr(packed)]"], "u32": ["#[repr(u32)]"], "C packed": ["#[repr(C)]", "#[repr(packed)]"]}[v["repr"]]
        wc = {"none": "", "bound": " where T: Tr", "two": " where T: Tr, T: Tr2", "outlives": " where T: 'a, T: Tr", "dup": " where T: Tr, T: Tr",
              "aliaseq": " where T: It<Item = Base>"}[v["wc"]]
        fty = {"scalar": "u32", "param": "T", "ref": "&'a T"}.get(v["fields"])
        if v["kind"] == "enum": body = "{ A, B(%s) }" % fty if fty else "{ A, B }"
        else: body = "{ f: %s }" % fty if fty else "{}"
        out.append("%s %s X%s%s %s" % (" ".join(attrs), v["kind"], params, wc, body))
    elif it == "trait":
        attrs = [a for a, on in (("#[auto]", v["auto"]), ("#[marker]", v["marker"]), ("#[upstream]", v["upstream"]), ("#[fundamental]", v["fundamental"]),
                                 ("#[non_enumerable]", v["nonenum"]), ("#[coinductive]", v["co"]), ("#[object_safe]", v["objsafe"])) if on]
        if v["lang"] != "none": attrs.append("#[lang(%s)]" % v["lang"])
        params = {"none": "", "T": "<T>", "lt": "<'a>"}[v["params"]]
        sup = " where Self: Tr" if v["super"] else ""
        a = v["assoc"]
        body = {"none": "", "plain": "type A;", "bound": "type A: Tr + Tr2;", "generic": "type A<U>;", "where": "type A<U> where U: Tr;", "clash": "type Item;", "clashimpl": "type Item;",
                "eqbound": "type A: It<Item = Base>;"}[a]
        out.append("%s trait X%s%s { %s }" % (" ".join(attrs), params, sup, body))
        if a == "clashimpl" and v["params"] == "none": out.append("impl X for Base { type Item = Base; }")
    elif it == "impl":
        gen = "<T>" if v["generic"] else ""
        selfty = {"Base": "Base", "G": "G<T>", "ref": "&'static Base", "tuple": "(Base, Base)", "fn": "fn(Base) -> Base", "dyn": "dyn Tr + 'static", "array": "[Base; 3]"}[v["self"]]
        wc = {"none": "", "bound": " where T: Tr2", "dup": " where T: Tr2, T: Tr2"}[v["wc"]]
        val = {"none": None, "base": "Base", "param": "T", "proj": "<T as It>::Item"}[v["value"]]
        out.append("struct G<T> {}")
        if val is not None:
            out.append("trait WithA { type A; }")
            out.append("impl%s WithA for %s%s { type A = %s; }" % (gen, selfty, wc, val))
        else:
            out.append("impl%s %sTr for %s%s {}" % (gen, "!" if v["neg"] else "", selfty, wc))
    elif it == "opaque":
        b = {"one": "Tr", "two": "Tr + Tr2"}[v["bounds"]]
        if v["generic"]: out.append("opaque type X<T>: %s%s = T;" % (b, " where T: Tr" if v["wc"] else ""))
        else: out.append("impl Tr for Base {} impl Tr2 for Base {} opaque type X: %s = Base;" % b)
    else:
        gen = "<T>" if v["generic"] else ""
        args = {"none": "", "one": "x: Base", "two": "x: Base, y: %s" % ("T" if v["generic"] else "u32")}[v["args"]]
        if v["variadic"]: args += ", ..."
        out.append("%s%s fn f%s(%s)%s%s;" % ("unsafe " if v["unsafe"] else "", 'extern "C"' if v["abi"] == "C" else "", gen, args, " -> Base" if v["ret"] else "",
                                             " where T: Tr" if v["wc"] else ""))
    return " ".join(out)

@prop("C22", "other")
def c22(run, tier):
    run.rule = ("TLC enumerates the program space of DisplayMC.tla (14 295 feature vectors: ADTs with every flag, repr, parameter kind, variance, where-clause shape and field shape; "
                "traits with every flag combination of size <= 3, lang attributes, parameters, supertrait, eight associated-type shapes incl. two traits sharing an associated "
                "type name with and without an impl value; impls positive / negative over seven self-type shapes with associated values; opaque types; fn definitions); each "
                "vector is rendered and put through the real lower -> write_items -> parse -> lower -> write_items -> parse -> lower: the printed text must lower, for "
                "`Exact` vectors the reparsed program must equal the original, for all vectors the second rendering must equal the first and re-lower to the reparsed "
                "program; non-trivial = the vector sets at least one flag, where-clause or associated type; distinct = vector")
    run.assumptions = ["the printer and the parser themselves are not modelled in TLA+ (they are encode / decode code); the specification contributes the program space and the equivalence demanded",
                       "vectors the front end rejects (lowering errors on the original text) are counted and skipped",
                       "trusted: TLC, the renderer render_display, Program's Eq"]
    r = run_tlc_mc(run, "DisplayMC", "SPECIFICATION Spec\nINVARIANTS TypeOK Replay\nCHECK_DEADLOCK FALSE\n", "C22", workers=8, timeout=1800)
    if r is None: return
    recs = gc.parse_replay(r)
    if tier == "quick":
        st = 5; recs = [x for i, x in enumerate(sorted(recs, key=lambda x: json.dumps(x, sort_keys=True))) if i % st == seed() % st]
    run.exhaustive = tier == "thorough"
    jobs = [{"id": i, "program": render_display(x["v"])} for i, x in enumerate(recs)]
    obs = harness.run("display", jobs, timeout=300)
    rejected = 0
    for x, job, o in zip(recs, jobs, obs):
        v = x["v"]
        nontrivial = any(val not in (False, "none", "adt", "trait", "impl", "opaque", "fn", "struct", "Base", "one") for val in v.values())
        rp = {"vector": v, "program": job["program"], "observed": o}
        if o.get("error"):
            run.case([job["program"]], nontrivial=nontrivial); run.violation({"what": "abort-or-hang", "detail": str(o["error"])[:80]}, rp); continue
        if "panic" in o:
            run.case([job["program"]], nontrivial=nontrivial); run.violation({"what": "the writer / parser panics", "item": v["item"], "text": o["panic"][:80]}, rp); continue
        if o.get("lower1") != "ok": rejected += 1; continue
        run.case([job["program"]], nontrivial=nontrivial)
        sig = {"item": v["item"], "features": {k: val for k, val in v.items() if val not in (False, "none") and k != "item"}}
        if o.get("lower2") != "ok": run.violation(dict(sig, what="the printed program does not parse / lower", detail=str(o.get("lower2"))[:90]), rp)
        elif x["exact"] and not o["eq12"]:
            if v["item"] == "fn" and (v["unsafe"] or v["abi"] != "none" or v["variadic"]):
                run.violation({"deviation": "Writer_DropsFnSig", "what": "the reparsed program differs from the original"}, rp)
            else: run.violation(dict(sig, what="the reparsed program differs from the original"), rp)
        elif not o["same_text"]:
            eqb = (v["item"] == "adt" and v.get("wc") == "aliaseq") or (v["item"] == "trait" and v.get("assoc") == "eqbound")
            if eqb: run.violation({"deviation": "Writer_NoCoalesceAliasEqBound", "what": "rendering the reparsed program does not reproduce the text"}, rp)
            else: run.violation(dict(sig, what="rendering the reparsed program does not reproduce the text"), rp)
        elif not o["eq23"]: run.violation(dict(sig, what="the second round trip changes the program"), rp)
        else: run.traces += 1
        if nontrivial: run.sample({"program": job["program"][len(D_PRELUDE):], "printed": o.get("text1", "")[-220:]}, cap=5)
    run.extra["explanation"] = ("round trip of %d rendered feature vectors through the real writer and parser; %d vectors were rejected by the front end before printing and skipped" % (len(recs) - rejected, rejected))
    run.extra["vectors_rejected_by_front_end"] = rejected
