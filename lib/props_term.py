"""C09 at the first-order level: programs with unbounded answer sets, growing types and non-terminating naive derivations
(ImplMC-style programs plus where-clauses that are LARGER than the impl head, #[non_enumerable] traits); every public call under
default and reduced size limits must return under a watchdog, every answer stream must end by itself within the number of answers
the size limit admits, and every SLG execution must be a behaviour of SLG.tla -- whose actions only admit tables and answers within
the size limit (TableNew.big / AnswerNew.big), i.e. the mechanism that bounds the work."""
import json, random
import harness, tlc, groundcheck as gc
import props_order as po
from common import seed, ToolError

N, U, T = po.N, po.U, po.T

def growth_program(rnd):
    """like props_order.layered, but where-clauses may mention a larger type than the head (`impl<T> P for T where S1<T>: P`), traits may be
    #[non_enumerable], and there may be cross-recursion between two generators"""
    impls = []
    for tr in (1, 2, 3):
        r = rnd.random()
        if r < 0.3:
            wc = rnd.choice([T, U("S1", T), U("S2", T), U("S1", U("S1", T))])
            impls.append({"tr": tr, "head": T, "wcs": [{"tr": rnd.choice((1, 2, 3)), "ty": wc}]}); continue
        if rnd.random() < 0.7: impls.append({"tr": tr, "head": N(rnd.choice("ZY")), "wcs": []})
        for s in ("S1", "S2"):
            if rnd.random() < 0.75:
                wcs = [{"tr": rnd.choice((1, 2, 3)), "ty": rnd.choice([T, T, U("S1", T), U(s, U(s, T)), U("S2", T)])}]
                if rnd.random() < 0.3: wcs.append({"tr": rnd.choice((1, 2, 3)), "ty": rnd.choice([T, U("S1", T), N("Z")])})
                impls.append({"tr": tr, "head": U(s, T), "wcs": wcs})
    rnd.shuffle(impls)
    ne = sorted(rnd.sample([1, 2, 3], rnd.choice([0, 0, 1, 1, 2])))
    return {"impls": impls, "ne": ne}

def render(p):
    decls = ["struct Z {}", "struct Y {}", "struct S1<T> {}", "struct S2<T> {}"]
    for t in (1, 2, 3): decls.append("%strait %s {}" % ("#[non_enumerable] " if t in p.get("ne", []) else "", po.TR[t]))
    return " ".join(decls) + " " + po.render(p, list(range(len(p["impls"]))), False, False).split("trait G {} ", 1)[-1]

ONE_UNKNOWN = [g for g in po.OPEN_GOALS if not g.startswith("exists<T, U>")]
CLOSED = ["S1<S2<Z>>: H", "S2<S2<Y>>: P", "S1<S1<S1<Z>>>: G", "Z: H", "S2<Y>: G"]
LIMITS = [({"kind": "slg", "max_size": 10}, "slg10"), ({"kind": "slg", "max_size": 4}, "slg4"),
          ({"kind": "rec", "overflow": 100, "cache": True, "max_size": 30}, "rec"), ({"kind": "rec", "overflow": 20, "cache": True, "max_size": 4}, "rec4")]

KF15_PROGRAM = ("struct Z {} struct Y {} struct S1<T> {} struct S2<T> {} trait H {} trait P {} trait G {} impl<T> P for S2<T> where T: H {} "
                "impl<T> H for S1<T> where T: H, S1<T>: H, T: G {} impl P for Z {} impl<T> G for S2<T> where T: H {} impl<T> H for S2<T> where T: G {} "
                "impl H for Z {} impl<T> G for S1<T> where T: P, T: H, T: P {} impl<T> P for S1<T> where T: G, Z: H {}")

def answer_bound(max_size):
    """number of distinct type patterns of size <= max_size over Z, Y, a variable and two unary constructors: what an answer stream
    for a goal with one unknown can hold before the size limit flounders the table"""
    return 3 * (2 ** (max_size + 1) - 1)

def terminate_first_order(run, tier):
    rnd = random.Random(seed() * 101 + 9)
    n = 90 if tier == "quick" else 500
    progs = []
    for i in range(n):
        if i % 3 == 0:
            p = po.sample_program(rnd, i); p["ne"] = []
        else:
            p = growth_program(rnd)
            while len(p["impls"]) < 2: p = growth_program(rnd)
        p["id"] = i; progs.append(p)
    ntr = 0
    for solver, tag in LIMITS:
        slg = solver["kind"] == "slg"
        jobs = []
        for p in progs:
            ops = [{"op": "solve", "goal": g, "fresh": True} for g in ONE_UNKNOWN + CLOSED]
            if slg: ops += [{"op": "multi", "goal": g, "fresh": True, "max": 2 * answer_bound(solver["max_size"])} for g in ONE_UNKNOWN[:9]] if solver["max_size"] <= 4 else []
            jobs.append({"id": p["id"], "program": render(p), "solver": solver, "limits": True, "trace": slg and p["id"] % 4 == 0, "defs": False, "ops": ops})
        obs = harness.run("solve", jobs, chunk=4, timeout=90)
        traces = []
        for p, job, o in zip(progs, jobs, obs):
            base = {"src": "first-order", "solver": tag}
            run.case([job["program"], tag], nontrivial=True)
            rp = {"program": job["program"], "solver": solver, "goals": [x["goal"] for x in job["ops"]], "observed": {k: v for k, v in o.items() if k != "events"}}
            if o.get("error"):
                if str(o["error"]).startswith("lowering"): raise ToolError("program does not lower: %s: %s" % (job["program"], o["error"]))
                run.violation(dict(base, what="abort-or-hang", rec_cyclic=(not slg and po.cyclic(p["impls"]))), rp); continue
            bad = False
            for op, r in zip(job["ops"], o["results"]):
                if r.get("class") == "Panic":
                    if not slg and "overflow depth" in str(r.get("text", "")): continue       # the property's proviso for the recursive solver
                    bad |= run.violation(dict(base, what="panic", text=str(r.get("text"))[:60]), dict(rp, goal=op["goal"]))
                elif op["op"] == "multi" and r.get("class") != "Done":
                    bad |= run.violation(dict(base, what="the answer stream does not end within the number of answers the size limit admits",
                                              bound=answer_bound(solver["max_size"])), dict(rp, goal=op["goal"], answers=len(r.get("items", []))))
            if job["trace"] and not bad:
                cur = []                                         # a fresh solver per public call: one trace per call
                for e in o.get("events", []):
                    if e["ev"] == "Def": continue
                    if e["ev"] == "Op" and cur: traces.append((cur, rp)); cur = []
                    cur.append(e)
                if cur: traces.append((cur, rp))
            run.sample({"program": job["program"], "solver": tag, "goals": [x["goal"] for x in job["ops"]][:4],
                        "impl": [r.get("text") or r.get("class") for r in o["results"]][:4]}, cap=5)
        if traces:
            budget = 25000 if tier == "quick" else 120000      # events validated per limit configuration
            rnd.shuffle(traces)
            sel = []
            for t in traces:
                if len(t[0]) <= budget: sel.append(t); budget -= len(t[0])
            ntr += len(sel)
            gc.validate_traces(run, sel, "first-order-" + tag)
    # a recorded input on which the recursive solver does not return within the watchdog (known finding KF15-C09)
    o = harness.run("solve", [{"id": 0, "program": KF15_PROGRAM, "solver": gc.REC, "ops": [{"op": "solve", "goal": "exists<T> { T: H }"}]}], par=1, chunk=1, timeout=20)[0]
    run.case([KF15_PROGRAM, "rec"])
    if o.get("error"):
        run.violation({"src": "first-order", "solver": "rec", "what": "abort-or-hang", "input": "cyclic-3wc-1"}, {"program": KF15_PROGRAM, "goal": "exists<T> { T: H }", "observed": o})
    run.extra["first_order_programs"] = len(progs)
    run.extra["first_order_traces"] = ntr
