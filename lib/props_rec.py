"""The recursive solver in lock-step with RecGround.tla: for every program of the propositional family and every history of public
calls (solve / solve_limited interrupted at the k-th consultation) TLC computes the answers AND the sequence of engine events
(cache hits, search-graph hits, new goals, iteration results, what happens to a finished goal: cache / scratch / keep / rollback);
the real chalk-recursive must produce exactly that sequence.  Invariants checked by TLC between calls: ResultsCorrect, InterruptSafe,
CacheSound, GraphEmpty, NoFuel."""
import json, os, re
import ground, groundcheck as gc, harness, tlc
from props_mem import run_tlc_mc
from common import ToolError

def val(v):
    if v.startswith("Err"): return "E"
    if v.startswith("Ok(Unique"): return "U"
    if v.startswith("Ok(Ambig(Unknown"): return "A"
    if v.startswith("Ok(Ambig(Suggested"): return "S"
    return "?" + v[:30]

def name(g):
    m = re.search(r"goal: (not \{ )?(Implemented|FromEnv)\(S(\d): T\d\)", g)
    if not m: return "?" + g[:60]
    if m.group(1): return "n" + m.group(3)
    return ("a" if m.group(2) == "Implemented" else "e") + m.group(3)

def norm(e):
    ev = e["ev"]
    if ev == "RNew": return ["New", name(e["g"])]
    if ev == "RCacheHit": return ["Cache", name(e["g"]), val(e["v"])]
    if ev == "RGraphHit": return ["Graph", name(e["g"]), "on" if e["onstack"] else "off", val(e["v"])]
    if ev == "RMixed": return ["Mixed", name(e["g"])]
    if ev == "RIter": return ["Iter", val(e["v"]), e["next"]]
    if ev == "RExit": return ["Exit", name(e["g"]), val(e["v"]), e["how"]]
    if ev == "RInterrupted": return ["Intr"]
    return None

CLASS = {"U": "Unique", "E": "None", "A": "Unknown", "S": "Suggested"}

def rec_lockstep(run, fam, byid, goals_of, tag, max_ops=2, max_stop=2, cache_on=True, timeout=1800):
    os.makedirs(tlc.WORK, exist_ok=True)
    inp = os.path.join(tlc.WORK, "inputs_%s.ndjson" % tag)
    with open(inp, "w") as f:
        for p in fam: f.write(json.dumps(ground.to_tla_json(p, goals_of(p))) + "\n")
    cfg = ("SPECIFICATION Spec\nCONSTANTS\n  MaxOps = %d\n  MaxStop = %d\n  NegGoals = FALSE\n  CacheOn = %s\n"
           "INVARIANTS FamilyOK ResultsCorrect InterruptSafe CacheSound GraphEmpty NoFuel Replay\nCHECK_DEADLOCK FALSE\n"
           % (max_ops, max_stop, "TRUE" if cache_on else "FALSE"))
    r = run_tlc_mc(run, "RecGroundMC", cfg, tag, env={"INPUTS": inp}, workers=8, timeout=timeout, xmx="10g")
    if r is None: return
    os.unlink(inp)
    recs = gc.parse_replay(r)
    solver = gc.REC if cache_on else gc.RECNC
    sname = gc.solver_name(solver)
    jobs = []
    for i, rec in enumerate(recs):
        p = byid[rec["id"]]
        jobs.append({"id": i, "program": ground.render(p, 4), "solver": solver, "trace": True, "defs": False,
                     "ops": [gc.op_of(x) for x in rec["results"]]})
    obs = harness.run("solve", jobs, timeout=300)
    nev = 0
    for rec, job, o in zip(recs, jobs, obs):
        run.case([job["program"], job["ops"], sname, "lockstep"], nontrivial=bool(byid[rec["id"]]["clauses"]))
        rp = {"program": job["program"], "solver": solver, "ops": job["ops"], "expected": rec["results"]}
        base = {"solver": sname, "layer": "rec-lockstep"}
        if o.get("error"):
            run.violation(dict(base, what="abort-or-hang"), dict(rp, observed=o)); continue
        # split the real events per public call
        per, cur = [], None
        for e in o.get("events", []):
            if e["ev"] == "Op": cur = []; per.append(cur)
            elif e["ev"] in ("OpEnd", "Def"): continue
            else:
                n = norm(e)
                if n is not None and cur is not None: cur.append(n)
        bad = False
        for j, (x, y) in enumerate(zip(rec["results"], o["results"])):
            if y.get("class") != CLASS.get(x["v"]):
                bad |= run.violation(dict(base, what="answer differs from the engine model", expected=CLASS.get(x["v"]), observed=y.get("class")),
                                     dict(rp, op_index=j, observed=y)); break
            want = [list(e) for e in x["ev"]]
            got = per[j] if j < len(per) else None
            if got != want:
                k = next((i for i, (a, b) in enumerate(zip(want, got or [])) if a != b), min(len(want), len(got or [])))
                bad |= run.violation(dict(base, what="engine events differ from the model", at=k,
                                          expected=(want[k] if k < len(want) else "end"), observed=(got[k] if got and k < len(got) else "end")),
                                     dict(rp, op_index=j, model_events=want, real_events=got)); break
            nev += len(want)
        if not bad: run.traces += 1
    run.extra["rec_lockstep_behaviours_" + tag] = len(recs)
    run.extra["rec_lockstep_events_" + tag] = nev
