"""C14 / C15 (InferMC.tla), C16 (CanonMC.tla): the inference table."""
import json, copy
import tlc, harness, groundcheck as gc
from props import prop
from props_mem import run_tlc_mc
from props_terms import show
from common import seed, ToolError

DECL = [{"id": 0, "u": 0, "kind": "ty"}, {"id": 10, "u": 1, "kind": "ty"}, {"id": 11, "u": 1, "kind": "ty"},
        {"id": 1, "u": 0, "kind": "int"}, {"id": 2, "u": 0, "kind": "float"}, {"id": 3, "u": 0, "kind": "lt"}]
DECLSEQ = [0, 10, 11, 1, 2]          # order of `after` / `uni` in the REPLAY records
KINDNO = {"ty": 0, "int": 1, "float": 2}

def mask(t):
    if t["k"].startswith("l"): return {"k": "lt"}
    return {"k": t["k"], "n": t["n"], "m": t["m"], "a": [mask(x) for x in t["a"]]}

def rename_infer(t, ren):
    if t["k"] == "infer" and t["n"] in ren: return {"k": "infer", "n": ren[t["n"]][0], "m": ren[t["n"]][1], "a": []}
    if t["k"] == "lt": return t
    return {"k": t["k"], "n": t.get("n", 0), "m": t.get("m", 0), "a": [rename_infer(x, ren) for x in t.get("a", [])]}

def spec_view(step):
    """declared var -> resolved term with every unbound class named by its smallest declared member"""
    after = dict(zip(DECLSEQ, step["after"]))
    classes = {}
    for v, t in after.items():
        if t["k"] == "infer": classes.setdefault(t["n"], []).append(v)
    ren = {w: (min(vs + ([w] if w in DECLSEQ else [])), None) for w, vs in classes.items()}
    # kind of the class = kind of its representative unknown w
    kinds = {}
    for v, t in after.items():
        if t["k"] == "infer": kinds[t["n"]] = t["m"]
    ren = {w: (r[0], kinds[w]) for w, r in ren.items()}
    view = {v: rename_infer(mask(t), ren) for v, t in after.items()}
    uni = {}
    for v, u in zip(DECLSEQ, step["uni"]):
        if after[v]["k"] == "infer": uni[ren[after[v]["n"]][0]] = (u, after[v]["m"])
    return view, uni

def subst_bound(t, names):
    if t["k"] == "bound" and t["n"] == 0: return names[t["m"]]
    if t["k"].startswith("l"): return {"k": "lt"}
    if t["k"] == "lt": return t
    return {"k": t["k"], "n": t["n"], "m": t["m"], "a": [subst_bound(x, names) for x in t["a"]]}

def real_view(state):
    """same view of the real table: classes are found through the root variable of each unbound declared variable"""
    vs = state["vars"]
    roots = {}
    for v in DECLSEQ:
        c = vs[str(v)]
        if c["value"]["k"] == "bound" and len(c["free"]) == 1: roots.setdefault(c["free"][0], []).append(v)
    rep = {r: min(m) for r, m in roots.items()}
    view, uni = {}, {}
    for v in DECLSEQ:
        c = vs[str(v)]
        names = []
        for r, b in zip(c["free"], c["binders"]):
            if b["kind"] == "lt": names.append({"k": "lt"})
            elif r in rep: names.append({"k": "infer", "n": rep[r], "m": KINDNO.get(b["kind"], 0), "a": []})
            else: names.append({"k": "infer", "n": 1000, "m": KINDNO.get(b["kind"], 0), "a": []})     # a fresh (generalisation) variable
            if r in rep and b["kind"] != "lt": uni[rep[r]] = (b["u"], KINDNO.get(b["kind"], 0))
        view[v] = subst_bound(c["value"], names)
    return view, uni

def infer_replay(run, tier, focus):
    big = tier == "thorough"
    cfg = ("SPECIFICATION Spec\nCONSTANTS\n  MaxOps = %d\n  Stride = %d\n  Offset = %d\nINVARIANTS %s\nCHECK_DEADLOCK FALSE\n")
    heavy = "SymmetricLast SoundLast CompleteLast MostGeneralLast FailKeeps"
    recs = []
    # (history length, stride of the run that checks the meaning-level invariants, stride of the run that prints REPLAY records)
    plan = [(1, 1, 1), (2, 24, 4), (3, 400, 60)] if big else [(1, 1, 1), (2, 90, 7)]
    for (maxops, st_inv, st_rep) in plan:
        r = run_tlc_mc(run, "InferMC", cfg % (maxops, st_inv, seed() % st_inv, heavy), "%s_%di" % (focus, maxops), workers=10, timeout=3000)
        if r is None: return
        r = run_tlc_mc(run, "InferMC", cfg % (maxops, st_rep, seed() % st_rep, "SymmetricLast FailKeeps ReplayRec"), "%s_%dr" % (focus, maxops), workers=10, timeout=3000)
        if r is None: return
        recs += gc.parse_replay(r)
    run.exhaustive = False
    jobs = []
    for i, rec in enumerate(recs):
        ops = []
        for step in rec["hist"]:
            ops.append({"op": "try", "variance": "inv", "a": step["b"], "b": step["a"]})
            ops.append({"op": "relate", "variance": "inv", "a": step["a"], "b": step["b"]})
        jobs.append({"id": i, "universes": 2, "vars": DECL, "ops": ops})
    obs = harness.run("infer", jobs, timeout=300, chunk=400)
    for rec, job, o in zip(recs, jobs, obs):
        hist = rec["hist"]
        last = hist[-1]
        nontrivial = last["a"] != last["b"] and (last["a"]["k"] != "scalar" or last["b"]["k"] != "scalar")
        run.case([[(s["a"], s["b"]) for s in hist]], nontrivial=nontrivial)
        rp = {"vars": DECL, "ops": job["ops"], "expected": hist, "observed": o}
        if o.get("error"):
            run.violation({"what": "abort-or-panic", "detail": str(o["error"])[:100]}, rp); continue
        prev_state = o["state0"]
        bad = False
        for j, step in enumerate(hist):
            rt, rr = o["results"][2 * j], o["results"][2 * j + 1]
            pair = (show(step["a"])[:40], show(step["b"])[:40])
            if "panic" in rr or "panic" in rt:
                bad |= run.violation({"what": "relate panics", "pair": pair, "text": (rr.get("panic") or rt.get("panic"))[:80]}, rp); break
            if focus == "C14":
                if rr["ok"] != step["ok"]:
                    bad |= run.violation({"what": "unification %s where the specification %s" % ("succeeds" if rr["ok"] else "fails", "succeeds" if step["ok"] else "fails"),
                                          "pair": pair, "history": j}, rp); break
                sv, su = spec_view(step); rv, ru = real_view(rr["state"])
                if rr["ok"] and sv != rv:
                    bad |= run.violation({"what": "resulting assignment differs from the most general unifier", "pair": pair, "history": j}, rp); break
                gen = {k: v[0] for k, v in su.items() if v[1] == 0}; gre = {k: v[0] for k, v in ru.items() if v[1] == 0}
                if rr["ok"] and gen != gre:
                    bad |= run.violation({"what": "universes of the remaining unknowns differ from the specification", "pair": pair, "history": j,
                                          "expected": gen, "observed": gre}, rp); break
            else:
                if rt["ok"] != rr["ok"]:
                    bad |= run.violation({"what": "success depends on the order of the two types", "pair": pair, "history": j}, rp); break
                if not rr["ok"] and rr["state"] != prev_state:
                    bad |= run.violation({"what": "a failed unification changed the inference table", "pair": pair, "history": j}, rp); break
                if rt["state"] != (prev_state if not rt["ok"] else rt["state"]):
                    bad |= run.violation({"what": "a failed unification changed the inference table", "pair": pair, "history": j, "order": "swapped"}, rp); break
            prev_state = rr["state"]
        if not bad: run.traces += 1
        if nontrivial and len(hist) > 1:
            run.sample({"history": [[show(s["a"]), show(s["b"]), s["ok"]] for s in hist], "impl_ok": [o["results"][2 * j + 1].get("ok") for j in range(len(hist))]}, cap=6)
    run.extra["histories_replayed"] = len(recs)

INFER_ASSUME = ["types: scalars, ADTs with 1-2 parameters, tuples, slices, & / &mut references, raw pointers; general unknowns in universes 0 and 1, integer / float unknowns, placeholders of universes 1 and 2; depth <= 2",
                "histories: up to 2 (thorough: 3) relates; the earlier ones are drawn from 13 set-up pairs, the last from all pairs selected by a seed-dependent residue class",
                "invariant relation only; lifetimes are compared modulo outlives obligations (masked); universes of integer / float unknowns are not compared",
                "trusted: TLC, the term builder and the state projection of harness/src/inferops.rs, the set-theoretic meaning in InferMC.tla (bounded ground assignments)"]

@prop("C14")
def c14(run, tier):
    run.rule = ("TLC explores histories of relates on one inference table (InferMC.tla) and checks the algorithmic unification of Unify.tla against the "
                "set-theoretic meaning: SoundLast, CompleteLast (bounded ground assignments), MostGeneralLast, SymmetricLast; every explored history is "
                "replayed on the real InferenceTable::relate: success must agree and, after each success, the deeply resolved value of every declared "
                "unknown, the classes of unified unknowns and the universes of the remaining general unknowns must equal the specification's most "
                "general unifier; non-trivial = the last pair is not two scalars and not identical; distinct = history")
    run.assumptions = INFER_ASSUME
    infer_replay(run, tier, "C14")

@prop("C15")
def c15(run, tier):
    run.rule = ("same histories as C14 (InferMC.tla, invariants FailKeeps and SymmetricLast); on the real table every relate is first tried with the "
                "arguments swapped on a clone: both orders must agree on success; after a failed relate the projection of the table (resolved value, "
                "class and universe of every declared unknown, number of variables, number of universes) must be exactly what it was before; "
                "non-trivial = the last pair is not two scalars and not identical; distinct = history")
    run.assumptions = INFER_ASSUME
    infer_replay(run, tier, "C15")

CDECL = [{"id": 0, "u": 0, "kind": "ty"}, {"id": 10, "u": 1, "kind": "ty"}, {"id": 30, "u": 3, "kind": "ty"}, {"id": 1, "u": 0, "kind": "int"},
         {"id": 2, "u": 0, "kind": "lt"}, {"id": 32, "u": 3, "kind": "lt"}, {"id": 3, "u": 0, "kind": "const"}, {"id": 13, "u": 1, "kind": "const"}]

def norm(t):
    return {"k": t["k"], "n": t["n"], "m": t["m"], "a": [norm(x) for x in t["a"]]}

@prop("C16")
def c16(run, tier):
    run.rule = ("TLC takes every (earlier unification, value) of CanonMC.tla: 7 set-ups (none, unknowns unified with each other across universes, bound to a "
                "type, integer unknown, constants unified through array lengths) x 356 values mixing type / integer / lifetime / constant unknowns, repeated "
                "unknowns and placeholders of three kinds from universes 1..3; checks CanonIffAlpha against all 356 partners, UCanonOrder, UCanonInverse; "
                "the real canonicalize (value, binder kinds and universes), instantiate_canonical + canonicalize, u_canonicalize and map_from_canonical "
                "must return the specification's results; non-trivial = the value has at least one unknown; distinct = (set-up, value)")
    run.assumptions = ["values are ADTs with two or three generic arguments of depth <= 2; `invert` is not exercised",
                       "trusted: TLC, harness/src/terms.rs and inferops.rs, the renaming semantics AlphaEq in CanonMC.tla"]
    r = run_tlc_mc(run, "CanonMC", "SPECIFICATION Spec\nINVARIANTS SetupOk CanonIffAlpha UCanonOrder UCanonInverse Replay\nCHECK_DEADLOCK FALSE\n", "C16", workers=10, timeout=3000)
    if r is None: return
    run.exhaustive = True
    recs = gc.parse_replay(r)
    jobs = []
    for i, rec in enumerate(recs):
        ops = ([{"op": "relate", "variance": "inv", "a": rec["setup"][0], "b": rec["setup"][1]}] if rec["setup"] else []) + [{"op": "canon", "t": rec["v"]}]
        jobs.append({"id": i, "universes": 3, "vars": CDECL, "ops": ops})
    obs = harness.run("infer", jobs, timeout=300, chunk=200)
    for rec, job, o in zip(recs, jobs, obs):
        want = rec["canon"]
        run.case([rec["setup"], rec["v"]], nontrivial=bool(want["binders"]))
        rp = {"vars": CDECL, "ops": job["ops"], "expected": {"canon": want, "ucanon": rec["ucanon"]}, "observed": o}
        if o.get("error"):
            run.violation({"what": "abort-or-panic", "detail": str(o["error"])[:100]}, rp); continue
        res = o["results"][-1]
        if rec["setup"] and not o["results"][0].get("ok"):
            run.violation({"what": "set-up unification failed", "setup": [show(x) for x in rec["setup"]]}, rp); continue
        if "panic" in res:
            run.violation({"what": "canonicalization panics", "text": res["panic"][:80], "value": show(rec["v"])[:60]}, rp); continue
        bad = False
        def cmp(label, got, exp, with_univ=False):
            g = {"value": norm(got["value"]), "binders": got["binders"]}
            e = {"value": norm(exp["value"]), "binders": [{"kind": b["kind"], "u": b["u"]} for b in exp["binders"]]}
            if with_univ: g["universes"] = got["universes"]; e["universes"] = exp["universes"]
            if g != e:
                return run.violation({"what": label, "value": show(rec["v"])[:60], "setup": [show(x) for x in rec["setup"]]}, rp)
            return False
        bad |= cmp("canonical form differs from the specification (numbering by first occurrence, kinds, universes)", res["canon"], want)
        if not bad: bad |= cmp("canonicalizing an instance of the canonical form does not give it back", res["again"], want)
        if not bad: bad |= cmp("universe compression differs from the specification", res["ucanon"], rec["ucanon"], True)
        if not bad: bad |= cmp("map_from_canonical does not undo the universe compression", res["back"], want)
        if not bad: run.traces += 1
        if len(want["binders"]) >= 2: run.sample({"setup": [show(x) for x in rec["setup"]], "value": show(rec["v"]), "canon": show(norm(res["canon"]["value"])), "binders": res["canon"]["binders"]}, cap=6)
