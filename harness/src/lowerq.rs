//! Mode `lower`: run the lowering-level queries of chalk-integration on a program text.
//!
//! Job: {"id","program","solver":{..},"queries":["program_ir"|"coherence"|"orphan"|"checked"], "trait"?: "Foo"}
//! Observation: {"id","error":null,"results":{query: {"r":"ok"|"err"|"panic","text":..}},
//!               "prio":[p or -1 per impl of `trait`, in impl-id order]}

use crate::solver::choice_of;
use chalk_integration::db::ChalkDatabase;
use chalk_integration::query::LoweringDatabase;
use serde_json::{json, Map, Value};
use std::panic::{catch_unwind, AssertUnwindSafe};

fn ptext(p: Box<dyn std::any::Any + Send>) -> String {
    if let Some(s) = p.downcast_ref::<&str>() {
        s.to_string()
    } else if let Some(s) = p.downcast_ref::<String>() {
        s.clone()
    } else {
        "<non-string payload>".to_string()
    }
}

pub fn run_job(line: &str) -> String {
    let job: Value = match serde_json::from_str(line) {
        Ok(v) => v,
        Err(e) => return json!({"id": null, "error": format!("bad job: {}", e)}).to_string(),
    };
    let id = job["id"].clone();
    let text = job["program"].as_str().unwrap_or("");
    let choice = choice_of(&job["solver"]);
    let mut results = Map::new();
    let mut prio: Vec<i64> = Vec::new();
    let empty = vec![];
    for q in job["queries"].as_array().unwrap_or(&empty) {
        let q = q.as_str().unwrap_or("");
        // a fresh database per query: a panic inside salsa poisons the query
        let db = ChalkDatabase::with(text, choice);
        let r = catch_unwind(AssertUnwindSafe(|| -> Result<(), String> {
            match q {
                "program_ir" => db.program_ir().map(|_| ()).map_err(|e| e.to_string()),
                "orphan" => db.orphan_check().map_err(|e| e.to_string()),
                "checked" => db.checked_program().map(|_| ()).map_err(|e| e.to_string()),
                "coherence" => {
                    let program = db.program_ir().map_err(|e| e.to_string())?;
                    let pr = db.coherence().map_err(|e| e.to_string())?;
                    if let Some(tname) = job["trait"].as_str() {
                        let tid = program
                            .trait_ids
                            .iter()
                            .find(|(k, _)| k.to_string() == tname)
                            .map(|(_, v)| *v);
                        if let Some(tid) = tid {
                            let sp = pr.get(&tid).cloned();
                            for (iid, datum) in program.impl_data.iter() {
                                if datum.binders.skip_binders().trait_ref.trait_id != tid {
                                    continue;
                                }
                                let p = match &sp {
                                    None => -1,
                                    Some(sp) => {
                                        let sp = sp.clone();
                                        let iid = *iid;
                                        match catch_unwind(AssertUnwindSafe(|| sp.priority(iid))) {
                                            Ok(p) => {
                                                // SpecializationPriority(usize) has no accessor: use Debug
                                                let t = format!("{:?}", p);
                                                t.trim_start_matches("SpecializationPriority(")
                                                    .trim_end_matches(')')
                                                    .parse::<i64>()
                                                    .unwrap_or(-2)
                                            }
                                            Err(_) => -1,
                                        }
                                    }
                                };
                                prio.push(p);
                            }
                        }
                    }
                    Ok(())
                }
                _ => Err("unknown query".to_string()),
            }
        }));
        let v = match r {
            Ok(Ok(())) => json!({"r": "ok", "text": ""}),
            Ok(Err(e)) => json!({"r": "err", "text": e}),
            Err(p) => json!({"r": "panic", "text": ptext(p)}),
        };
        results.insert(q.to_string(), v);
    }
    // goals: parse + lower each against the program (if it lowers)
    let mut goal_results: Vec<Value> = Vec::new();
    if let Some(goals) = job["goals"].as_array() {
        let db = ChalkDatabase::with(text, choice);
        let prog = catch_unwind(AssertUnwindSafe(|| db.program_ir()));
        for g in goals {
            let gt = g.as_str().unwrap_or("");
            let r = match &prog {
                Ok(Ok(program)) => {
                    let program = program.clone();
                    match catch_unwind(AssertUnwindSafe(|| {
                        chalk_integration::tls::set_current_program(&program, || {
                            chalk_parse::parse_goal(gt)
                                .map_err(|e| format!("parse: {}", e))
                                .and_then(|g| chalk_integration::lowering::lower_goal(&*g, &*program).map(|_| ()).map_err(|e| format!("lower: {}", e)))
                        })
                    })) {
                        Ok(Ok(())) => json!({"r": "ok", "text": ""}),
                        Ok(Err(e)) => json!({"r": "err", "text": e}),
                        Err(p) => json!({"r": "panic", "text": ptext(p)}),
                    }
                }
                _ => json!({"r": "skip", "text": "program does not lower"}),
            };
            goal_results.push(r);
        }
    }
    json!({"id": id, "error": null, "results": results, "prio": prio, "goals": goal_results}).to_string()
}

/// Mode `parse`: {"id","items":[{"text","as":"program"|"goal"}]} -> results [{"r":"ok"|"err"|"panic","text"}]
pub fn run_parse_job(line: &str) -> String {
    let job: Value = match serde_json::from_str(line) {
        Ok(v) => v,
        Err(e) => return json!({"id": null, "error": format!("bad job: {}", e)}).to_string(),
    };
    let empty = vec![];
    let res: Vec<Value> = job["items"]
        .as_array()
        .unwrap_or(&empty)
        .iter()
        .map(|it| {
            let t = it["text"].as_str().unwrap_or("");
            let as_goal = it["as"].as_str() == Some("goal");
            match catch_unwind(AssertUnwindSafe(|| {
                if as_goal {
                    chalk_parse::parse_goal(t).map(|_| ()).map_err(|e| e.to_string())
                } else {
                    chalk_parse::parse_program(t).map(|_| ()).map_err(|e| e.to_string())
                }
            })) {
                Ok(Ok(())) => json!({"r": "ok"}),
                Ok(Err(e)) => json!({"r": "err", "text": e.chars().take(60).collect::<String>()}),
                Err(p) => json!({"r": "panic", "text": ptext(p)}),
            }
        })
        .collect();
    json!({"id": job["id"], "error": null, "results": res}).to_string()
}
