//! A forwarding `RustIrDatabase` that counts callbacks and can panic at the n-th one
//! (crash-point injection for C12; needs no hook in /repo).

use chalk_integration::db::ChalkDatabase;
use chalk_integration::interner::ChalkIr;
use chalk_ir::*;
use chalk_solve::rust_ir::*;
use chalk_solve::RustIrDatabase;
use std::cell::Cell;
use std::sync::Arc;

type I = ChalkIr;

pub struct WrapDb<'a> {
    pub inner: &'a ChalkDatabase,
    pub calls: Cell<u64>,
    pub panic_at: Cell<Option<u64>>,
    /// emit one `DbCall` event per callback into the verif sink (to locate crash points)
    pub log_calls: Cell<bool>,
    pub log_serves: Cell<bool>,
}

/// Payload of an injected panic.
pub struct Injected(pub u64);

impl<'a> WrapDb<'a> {
    pub fn new(inner: &'a ChalkDatabase) -> Self {
        WrapDb {
            inner,
            calls: Cell::new(0),
            panic_at: Cell::new(None),
            log_calls: Cell::new(false),
            log_serves: Cell::new(false),
        }
    }
    /// `Serve` event: an item was handed out (used by the logdb mode to see what the logging wrapper asked for)
    fn serve(&self, kind: &str, id: u32, name: String) {
        if self.log_serves.get() {
            chalk_ir::verif::emit("Serve", |f| {
                f.str("kind", kind).int("id", id as usize).str("name", &name);
            });
        }
    }
    fn tick(&self, _what: &str) {
        let n = self.calls.get() + 1;
        self.calls.set(n);
        if self.log_calls.get() {
            chalk_ir::verif::emit("DbCall", |f| {
                f.int("call", n as usize).str("what", _what);
            });
        }
        if self.panic_at.get() == Some(n) {
            self.panic_at.set(None);
            chalk_ir::verif::emit("Panic", |f| {
                f.int("call", n as usize).str("what", _what);
            });
            std::panic::panic_any(Injected(n));
        }
    }
}

impl<'a> std::fmt::Debug for WrapDb<'a> {
    fn fmt(&self, f: &mut std::fmt::Formatter<'_>) -> std::fmt::Result {
        write!(f, "WrapDb")
    }
}

impl<'a> UnificationDatabase<I> for WrapDb<'a> {
    fn fn_def_variance(&self, id: FnDefId<I>) -> Variances<I> {
        self.tick("fn_def_variance");
        self.inner.fn_def_variance(id)
    }
    fn adt_variance(&self, id: AdtId<I>) -> Variances<I> {
        self.tick("adt_variance");
        self.inner.adt_variance(id)
    }
}

impl<'a> RustIrDatabase<I> for WrapDb<'a> {
    fn custom_clauses(&self) -> Vec<ProgramClause<I>> {
        self.tick("custom_clauses");
        self.inner.custom_clauses()
    }
    fn associated_ty_data(&self, ty: AssocTypeId<I>) -> Arc<AssociatedTyDatum<I>> {
        self.tick("associated_ty_data");
        self.serve("assoc", ty.0.index, self.inner.assoc_type_name(ty));
        self.inner.associated_ty_data(ty)
    }
    fn trait_datum(&self, id: TraitId<I>) -> Arc<TraitDatum<I>> {
        self.tick("trait_datum");
        self.serve("trait", id.0.index, self.inner.trait_name(id));
        self.inner.trait_datum(id)
    }
    fn adt_datum(&self, id: AdtId<I>) -> Arc<AdtDatum<I>> {
        self.tick("adt_datum");
        self.serve("adt", id.0.index, self.inner.adt_name(id));
        self.inner.adt_datum(id)
    }
    fn coroutine_datum(&self, id: CoroutineId<I>) -> Arc<CoroutineDatum<I>> {
        self.tick("coroutine_datum");
        self.inner.coroutine_datum(id)
    }
    fn coroutine_witness_datum(&self, id: CoroutineId<I>) -> Arc<CoroutineWitnessDatum<I>> {
        self.tick("coroutine_witness_datum");
        self.inner.coroutine_witness_datum(id)
    }
    fn adt_repr(&self, id: AdtId<I>) -> Arc<AdtRepr<I>> {
        self.tick("adt_repr");
        self.inner.adt_repr(id)
    }
    fn adt_size_align(&self, id: AdtId<I>) -> Arc<AdtSizeAlign> {
        self.tick("adt_size_align");
        self.inner.adt_size_align(id)
    }
    fn fn_def_datum(&self, id: FnDefId<I>) -> Arc<FnDefDatum<I>> {
        self.tick("fn_def_datum");
        self.inner.fn_def_datum(id)
    }
    fn impl_datum(&self, id: ImplId<I>) -> Arc<ImplDatum<I>> {
        self.tick("impl_datum");
        self.serve("impl", id.0.index, String::new());
        self.inner.impl_datum(id)
    }
    fn associated_ty_from_impl(
        &self,
        impl_id: ImplId<I>,
        assoc_type_id: AssocTypeId<I>,
    ) -> Option<AssociatedTyValueId<I>> {
        self.tick("associated_ty_from_impl");
        self.inner.associated_ty_from_impl(impl_id, assoc_type_id)
    }
    fn associated_ty_value(&self, id: AssociatedTyValueId<I>) -> Arc<AssociatedTyValue<I>> {
        self.tick("associated_ty_value");
        self.inner.associated_ty_value(id)
    }
    fn opaque_ty_data(&self, id: OpaqueTyId<I>) -> Arc<OpaqueTyDatum<I>> {
        self.tick("opaque_ty_data");
        self.inner.opaque_ty_data(id)
    }
    fn hidden_opaque_type(&self, id: OpaqueTyId<I>) -> Ty<I> {
        self.tick("hidden_opaque_type");
        self.inner.hidden_opaque_type(id)
    }
    fn impls_for_trait(
        &self,
        trait_id: TraitId<I>,
        parameters: &[GenericArg<I>],
        binders: &CanonicalVarKinds<I>,
    ) -> Vec<ImplId<I>> {
        self.tick("impls_for_trait");
        let r = self.inner.impls_for_trait(trait_id, parameters, binders);
        for i in &r {
            self.serve("impl", i.0.index, String::new());
        }
        r
    }
    fn local_impls_to_coherence_check(&self, trait_id: TraitId<I>) -> Vec<ImplId<I>> {
        self.tick("local_impls_to_coherence_check");
        self.inner.local_impls_to_coherence_check(trait_id)
    }
    fn impl_provided_for(&self, auto_trait_id: TraitId<I>, ty: &TyKind<I>) -> bool {
        self.tick("impl_provided_for");
        self.inner.impl_provided_for(auto_trait_id, ty)
    }
    fn well_known_trait_id(&self, t: WellKnownTrait) -> Option<TraitId<I>> {
        self.tick("well_known_trait_id");
        self.inner.well_known_trait_id(t)
    }
    fn well_known_assoc_type_id(&self, t: WellKnownAssocType) -> Option<AssocTypeId<I>> {
        self.tick("well_known_assoc_type_id");
        self.inner.well_known_assoc_type_id(t)
    }
    fn program_clauses_for_env(&self, environment: &Environment<I>) -> ProgramClauses<I> {
        self.tick("program_clauses_for_env");
        chalk_solve::program_clauses_for_env(self, environment)
    }
    fn interner(&self) -> I {
        ChalkIr
    }
    fn is_object_safe(&self, trait_id: TraitId<I>) -> bool {
        self.tick("is_object_safe");
        self.inner.is_object_safe(trait_id)
    }
    fn closure_kind(&self, id: ClosureId<I>, substs: &Substitution<I>) -> ClosureKind {
        self.tick("closure_kind");
        self.inner.closure_kind(id, substs)
    }
    fn closure_inputs_and_output(
        &self,
        id: ClosureId<I>,
        substs: &Substitution<I>,
    ) -> Binders<FnDefInputsAndOutputDatum<I>> {
        self.tick("closure_inputs_and_output");
        self.inner.closure_inputs_and_output(id, substs)
    }
    fn closure_upvars(&self, id: ClosureId<I>, substs: &Substitution<I>) -> Binders<Ty<I>> {
        self.tick("closure_upvars");
        self.inner.closure_upvars(id, substs)
    }
    fn closure_fn_substitution(&self, id: ClosureId<I>, substs: &Substitution<I>) -> Substitution<I> {
        self.tick("closure_fn_substitution");
        self.inner.closure_fn_substitution(id, substs)
    }
    fn unification_database(&self) -> &dyn UnificationDatabase<I> {
        self
    }
    fn trait_name(&self, id: TraitId<I>) -> String {
        self.inner.trait_name(id)
    }
    fn adt_name(&self, id: AdtId<I>) -> String {
        self.inner.adt_name(id)
    }
    fn assoc_type_name(&self, id: AssocTypeId<I>) -> String {
        self.inner.assoc_type_name(id)
    }
    fn opaque_type_name(&self, id: OpaqueTyId<I>) -> String {
        self.inner.opaque_type_name(id)
    }
    fn fn_def_name(&self, id: FnDefId<I>) -> String {
        self.inner.fn_def_name(id)
    }
    fn discriminant_type(&self, ty: Ty<I>) -> Ty<I> {
        self.tick("discriminant_type");
        self.inner.discriminant_type(ty)
    }
}
