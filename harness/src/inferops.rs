//! Mode `infer`: a history of operations on one `InferenceTable` (C14, C15, C16).
//!
//! Job: {"id", "universes": k, "vars":[{"id":abs,"u":n,"kind":"ty"|"int"|"float"|"lt"|"const"}],
//!       "variances": {..}, "ops":[op..]}
//!   {"op":"relate","variance":"inv"|"co"|"contra","a":T,"b":T}   (on the table itself)
//!   {"op":"try","variance":..,"a":T,"b":T}                        (on a clone: the table is not changed)
//!   {"op":"canon","t":T}   canonicalize, u_canonicalize, instantiate + canonicalize again, invert
//! Every result carries "state": the projection of the table after the operation.

use crate::termops::{variance_of, vardb_of};
use crate::terms::*;
use chalk_integration::interner::ChalkIr;
use chalk_ir::*;
use chalk_solve::infer::ucanonicalize::UniverseMapExt;
use chalk_solve::infer::InferenceTable;
use serde_json::{json, Value};
use std::collections::HashMap;
use std::panic::{catch_unwind, AssertUnwindSafe};

const I: ChalkIr = ChalkIr;

struct Decl {
    abs: usize,
    kind: String,
    real: u32,
}

fn var_arg(d: &Decl) -> GenericArg<ChalkIr> {
    let v = InferenceVar::from(d.real);
    match d.kind.as_str() {
        "lt" => GenericArgData::Lifetime(LifetimeData::InferenceVar(v).intern(I)).intern(I),
        "const" => GenericArgData::Const(
            ConstData { ty: TyKind::Scalar(Scalar::Uint(UintTy::Usize)).intern(I), value: ConstValue::InferenceVar(v) }.intern(I),
        )
        .intern(I),
        "int" => GenericArgData::Ty(TyKind::InferenceVar(v, TyVariableKind::Integer).intern(I)).intern(I),
        "float" => GenericArgData::Ty(TyKind::InferenceVar(v, TyVariableKind::Float).intern(I)).intern(I),
        _ => GenericArgData::Ty(TyKind::InferenceVar(v, TyVariableKind::General).intern(I)).intern(I),
    }
}

fn kind_json(k: &VariableKind<ChalkIr>) -> &'static str {
    match k {
        VariableKind::Ty(TyVariableKind::General) => "ty",
        VariableKind::Ty(TyVariableKind::Integer) => "int",
        VariableKind::Ty(TyVariableKind::Float) => "float",
        VariableKind::Lifetime => "lt",
        VariableKind::Const(_) => "const",
    }
}

fn canon_json(table: &mut InferenceTable<ChalkIr>, g: &GenericArg<ChalkIr>) -> Value {
    let c = table.canonicalize(I, g.clone());
    let binders: Vec<Value> = c
        .quantified
        .binders
        .iter(I)
        .map(|b| json!({"kind": kind_json(&b.kind), "u": b.skip_kind().counter}))
        .collect();
    let free: Vec<Value> = c
        .free_vars
        .iter()
        .map(|v| json!(InferenceVar::from(*v.skip_kind()).index()))
        .collect();
    json!({"value": arg_json(&c.quantified.value), "binders": binders, "free": free})
}

/// Projection of the table: for every declared variable its canonical form (deeply resolved
/// value; remaining unknowns are `^0.i` described by binders[i] / free[i] = root variable).
fn state_json(table: &InferenceTable<ChalkIr>, decls: &[Decl]) -> Value {
    let mut t = table.clone();
    let mut vars = serde_json::Map::new();
    for d in decls {
        vars.insert(d.abs.to_string(), canon_json(&mut t, &var_arg(d)));
    }
    // how many variables / universes exist: observed on a clone
    let mut t2 = table.clone();
    let nv = InferenceVar::from(t2.new_variable(UniverseIndex::ROOT)).index();
    let nu = t2.new_universe().counter;
    json!({"vars": vars, "next_var": nv, "next_universe": nu})
}

fn goals_json(goals: &[InEnvironment<Goal<ChalkIr>>]) -> Vec<Value> {
    goals
        .iter()
        .map(|g| match g.goal.data(I) {
            GoalData::DomainGoal(DomainGoal::Holds(WhereClause::AliasEq(ae))) => json!({"g": "aliaseq", "ty": ty_json(&ae.ty)}),
            GoalData::DomainGoal(DomainGoal::Holds(WhereClause::LifetimeOutlives(o))) => {
                json!({"g": "outlives", "a": lt_json(&o.a), "b": lt_json(&o.b)})
            }
            GoalData::SubtypeGoal(s) => json!({"g": "subtype", "a": ty_json(&s.a), "b": ty_json(&s.b)}),
            other => json!({"g": "other", "text": format!("{:?}", other)}),
        })
        .collect()
}

pub fn run_job(line: &str) -> String {
    let job: Value = match serde_json::from_str(line) {
        Ok(v) => v,
        Err(e) => return json!({"id": null, "error": format!("bad job: {}", e)}).to_string(),
    };
    let id = job["id"].clone();
    let r = catch_unwind(AssertUnwindSafe(|| run_inner(&job)));
    VARMAP.with(|m| *m.borrow_mut() = None);
    match r {
        Ok(v) => v,
        Err(p) => {
            let s = p.downcast_ref::<String>().cloned().or_else(|| p.downcast_ref::<&str>().map(|s| s.to_string())).unwrap_or_default();
            json!({"id": id, "error": format!("harness panic: {}", s)}).to_string()
        }
    }
}

fn run_inner(job: &Value) -> String {
    let db = vardb_of(job);
    let env = Environment::new(I);
    let mut table: InferenceTable<ChalkIr> = InferenceTable::new();
    for _ in 0..job["universes"].as_u64().unwrap_or(0) {
        table.new_universe();
    }
    let mut decls: Vec<Decl> = Vec::new();
    let mut map: HashMap<usize, u32> = HashMap::new();
    let empty = vec![];
    for v in job["vars"].as_array().unwrap_or(&empty) {
        let abs = v["id"].as_u64().unwrap_or(0) as usize;
        let u = v["u"].as_u64().unwrap_or(0) as usize;
        let real = InferenceVar::from(table.new_variable(UniverseIndex { counter: u })).index();
        map.insert(abs, real);
        decls.push(Decl { abs, kind: v["kind"].as_str().unwrap_or("ty").to_string(), real });
    }
    VARMAP.with(|m| *m.borrow_mut() = Some(map));
    let mut results: Vec<Value> = Vec::new();
    let state0 = state_json(&table, &decls);
    for op in job["ops"].as_array().unwrap_or(&empty) {
        let kind = op["op"].as_str().unwrap_or("");
        let res = catch_unwind(AssertUnwindSafe(|| match kind {
            "relate" | "try" => {
                let a = arg_of(&op["a"]);
                let b = arg_of(&op["b"]);
                let variance = variance_of(op["variance"].as_str().unwrap_or("inv"));
                if kind == "try" {
                    let mut t = table.clone();
                    let r = t.relate(I, &db, &env, variance, &a, &b);
                    match r {
                        Ok(rr) => json!({"ok": true, "goals": goals_json(&rr.goals), "state": state_json(&t, &decls)}),
                        Err(_) => json!({"ok": false, "state": state_json(&t, &decls)}),
                    }
                } else {
                    let r = table.relate(I, &db, &env, variance, &a, &b);
                    match r {
                        Ok(rr) => json!({"ok": true, "goals": goals_json(&rr.goals), "state": state_json(&table, &decls)}),
                        Err(_) => json!({"ok": false, "state": state_json(&table, &decls)}),
                    }
                }
            }
            "canon" => {
                let g = arg_of(&op["t"]);
                let mut t = table.clone();
                let c = t.canonicalize(I, g.clone());
                let first = canon_json(&mut table.clone(), &g);
                // instantiate the canonical form with fresh variables and canonicalize again
                let fresh = t.instantiate_canonical(I, c.quantified.clone());
                let again = canon_json(&mut t, &fresh);
                // universe compression and its inverse
                let uc = InferenceTable::u_canonicalize(I, &c.quantified);
                let ub: Vec<Value> = uc.quantified.canonical.binders.iter(I).map(|b| json!({"kind": kind_json(&b.kind), "u": b.skip_kind().counter})).collect();
                let back = uc.universes.map_from_canonical(I, &uc.quantified.canonical);
                let bb: Vec<Value> = back.binders.iter(I).map(|b| json!({"kind": kind_json(&b.kind), "u": b.skip_kind().counter})).collect();
                json!({"canon": first, "again": again,
                       "ucanon": {"value": arg_json(&uc.quantified.canonical.value), "binders": ub, "universes": uc.quantified.universes},
                       "back": {"value": arg_json(&back.value), "binders": bb},
                       "state": state_json(&table, &decls)})
            }
            _ => json!({"error": "unknown op"}),
        }));
        results.push(match res {
            Ok(v) => v,
            Err(p) => {
                let s = p.downcast_ref::<String>().cloned().or_else(|| p.downcast_ref::<&str>().map(|s| s.to_string())).unwrap_or_default();
                json!({"panic": s, "state": state_json(&table, &decls)})
            }
        });
    }
    json!({"id": job["id"], "error": null, "state0": state0, "results": results}).to_string()
}
