//! Mode `display`: lower a program, render it with chalk-solve's writer, reparse + lower the text,
//! render again (C22).
//!
//! Job: {"id","program"} -> {"id","error", "lower1": "ok"|err, "text1", "lower2": "ok"|err text, "eq12": bool,
//!                          "text2", "same_text": bool, "lower3": .., "eq23": bool}

use chalk_integration::db::ChalkDatabase;
use chalk_integration::interner::ChalkIr;
use chalk_integration::program::Program;
use chalk_integration::query::LoweringDatabase;
use chalk_integration::{tls, SolverChoice};
use chalk_solve::display::{write_items, WriterState};
use chalk_solve::logging_db::RecordedItemId;
use serde_json::{json, Value};
use std::panic::{catch_unwind, AssertUnwindSafe};

fn write_program(program: &Program) -> String {
    macro_rules! grab_ids {
        ($map:expr) => {
            $map.keys().copied().map(|id| (id.0, RecordedItemId::<ChalkIr>::from(id)))
        };
    }
    let mut ids = std::iter::empty()
        .chain(grab_ids!(program.adt_data))
        .chain(grab_ids!(program.trait_data))
        .chain(grab_ids!(program.impl_data))
        .chain(grab_ids!(program.opaque_ty_data))
        .chain(grab_ids!(program.fn_def_data))
        .collect::<Vec<_>>();
    ids.sort_by_key(|(raw_id, _)| *raw_id);
    let mut out = String::new();
    write_items::<_, _, Program, _, _>(&mut out, &WriterState::new(program), ids.into_iter().map(|(_, id)| id)).unwrap();
    out
}

pub fn run_job(line: &str) -> String {
    let job: Value = match serde_json::from_str(line) {
        Ok(v) => v,
        Err(e) => return json!({"id": null, "error": format!("bad job: {}", e)}).to_string(),
    };
    let id = job["id"].clone();
    let text = job["program"].as_str().unwrap_or("").to_string();
    let r = catch_unwind(AssertUnwindSafe(|| {
        let db1 = ChalkDatabase::with(&text, SolverChoice::default());
        let p1 = match db1.program_ir() {
            Ok(p) => p,
            Err(e) => return json!({"id": id, "error": null, "lower1": e.to_string()}),
        };
        let t1 = tls::set_current_program(&p1, || write_program(&p1));
        let db2 = ChalkDatabase::with(&t1, SolverChoice::default());
        let p2 = match db2.program_ir() {
            Ok(p) => p,
            Err(e) => return json!({"id": id, "error": null, "lower1": "ok", "text1": t1, "lower2": e.to_string()}),
        };
        let eq12 = *p1 == *p2;
        let t2 = tls::set_current_program(&p2, || write_program(&p2));
        let db3 = ChalkDatabase::with(&t2, SolverChoice::default());
        let (lower3, eq23) = match db3.program_ir() {
            Ok(p3) => ("ok".to_string(), *p2 == *p3),
            Err(e) => (e.to_string(), false),
        };
        json!({"id": id, "error": null, "lower1": "ok", "text1": t1, "lower2": "ok", "eq12": eq12, "same_text": t1 == t2, "text2": t2, "lower3": lower3, "eq23": eq23})
    }));
    match r {
        Ok(v) => v.to_string(),
        Err(p) => {
            let s = p.downcast_ref::<String>().cloned().or_else(|| p.downcast_ref::<&str>().map(|s| s.to_string())).unwrap_or_default();
            json!({"id": id, "error": null, "panic": s}).to_string()
        }
    }
}
