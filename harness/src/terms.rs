//! Abstract terms of the TLA+ specifications (`Terms.tla`) <-> chalk-ir values.
//!
//! A term is `{"k": kind, "n": int, "m": int, "a": [terms]}`; kinds starting with `l` are
//! lifetimes, with `c` constants, with `wc_` where-clauses (dyn bounds), everything else is a type.

use chalk_integration::interner::{ChalkFnAbi, ChalkIr, RawId};
use chalk_ir::*;
use serde_json::{json, Value};

const I: ChalkIr = ChalkIr;

thread_local! {
    /// abstract variable id -> index of the real inference variable (installed by the `infer` mode)
    pub static VARMAP: std::cell::RefCell<Option<std::collections::HashMap<usize, u32>>> = std::cell::RefCell::new(None);
}
fn var_index(abs: usize) -> u32 {
    VARMAP.with(|m| match m.borrow().as_ref() {
        Some(map) => *map.get(&abs).unwrap_or_else(|| panic!("undeclared variable {}", abs)),
        None => abs as u32,
    })
}

fn k(v: &Value) -> &str {
    v["k"].as_str().unwrap_or("")
}
fn n(v: &Value) -> usize {
    v["n"].as_u64().unwrap_or(0) as usize
}
fn m(v: &Value) -> usize {
    v["m"].as_u64().unwrap_or(0) as usize
}
fn a(v: &Value) -> &[Value] {
    static EMPTY: Vec<Value> = Vec::new();
    v["a"].as_array().map(|x| x.as_slice()).unwrap_or(&EMPTY)
}
fn raw(i: usize) -> RawId {
    RawId { index: i as u32 }
}

pub fn scalar_of(i: usize) -> Scalar {
    match i {
        1 => Scalar::Bool,
        2 => Scalar::Char,
        3 => Scalar::Int(IntTy::I32),
        4 => Scalar::Uint(UintTy::U32),
        5 => Scalar::Uint(UintTy::Usize),
        6 => Scalar::Float(FloatTy::F32),
        7 => Scalar::Float(FloatTy::F64),
        8 => Scalar::Int(IntTy::I8),
        _ => Scalar::Uint(UintTy::U8),
    }
}
fn scalar_no(s: &Scalar) -> usize {
    (1..=9).find(|i| scalar_of(*i) == *s).unwrap_or(0)
}

pub fn mutability(i: usize) -> Mutability {
    if i == 1 {
        Mutability::Mut
    } else {
        Mutability::Not
    }
}

pub fn bound(v: &Value) -> BoundVar {
    BoundVar::new(DebruijnIndex::new(n(v) as u32), m(v))
}
pub fn ph(v: &Value) -> PlaceholderIndex {
    PlaceholderIndex {
        ui: UniverseIndex { counter: n(v) },
        idx: m(v),
    }
}

pub fn is_lifetime(v: &Value) -> bool {
    k(v).starts_with('l')
}
pub fn is_const(v: &Value) -> bool {
    let kk = k(v);
    kk.starts_with('c') && kk != "char"
}

pub fn lt_of(v: &Value) -> Lifetime<ChalkIr> {
    match k(v) {
        "lstatic" => LifetimeData::Static,
        "lerased" => LifetimeData::Erased,
        "lerror" => LifetimeData::Error,
        "linfer" => LifetimeData::InferenceVar(InferenceVar::from(var_index(n(v)))),
        "lph" => LifetimeData::Placeholder(ph(v)),
        "lbound" => LifetimeData::BoundVar(bound(v)),
        other => panic!("not a lifetime kind: {}", other),
    }
    .intern(I)
}

pub fn const_of(v: &Value) -> Const<ChalkIr> {
    let ty = ty_of(&a(v)[0]);
    let value = match k(v) {
        "cval" => ConstValue::Concrete(ConcreteConst { interned: n(v) as u32 }),
        "cinfer" => ConstValue::InferenceVar(InferenceVar::from(var_index(n(v)))),
        "cph" => ConstValue::Placeholder(ph(v)),
        "cbound" => ConstValue::BoundVar(bound(v)),
        other => panic!("not a const kind: {}", other),
    };
    ConstData { ty, value }.intern(I)
}

pub fn arg_of(v: &Value) -> GenericArg<ChalkIr> {
    if is_lifetime(v) {
        GenericArgData::Lifetime(lt_of(v)).intern(I)
    } else if is_const(v) {
        GenericArgData::Const(const_of(v)).intern(I)
    } else {
        GenericArgData::Ty(ty_of(v)).intern(I)
    }
}

pub fn subst_of(vs: &[Value]) -> Substitution<ChalkIr> {
    Substitution::from_iter(I, vs.iter().map(arg_of))
}

/// where-clause inside `dyn`: the Self type is `^1.0` (outer dyn binder, under the clause's own binder)
fn dyn_self() -> GenericArg<ChalkIr> {
    GenericArgData::Ty(TyKind::BoundVar(BoundVar::new(DebruijnIndex::ONE, 0)).intern(I)).intern(I)
}

pub fn wc_of(v: &Value) -> QuantifiedWhereClause<ChalkIr> {
    // n = trait / assoc id, m = number of lifetime binders of the clause
    let nb = m(v);
    let wc = match k(v) {
        "wc_impl" => WhereClause::Implemented(TraitRef {
            trait_id: TraitId(raw(n(v))),
            substitution: Substitution::from_iter(I, std::iter::once(dyn_self()).chain(a(v).iter().map(arg_of))),
        }),
        "wc_outl" => WhereClause::LifetimeOutlives(LifetimeOutlives {
            a: lt_of(&a(v)[0]),
            b: lt_of(&a(v)[1]),
        }),
        "wc_tyoutl" => WhereClause::TypeOutlives(TypeOutlives {
            ty: ty_of(&a(v)[0]),
            lifetime: lt_of(&a(v)[1]),
        }),
        "wc_aliaseq" => {
            let args = a(v);
            let (last, init) = args.split_last().expect("aliaseq needs a type");
            WhereClause::AliasEq(AliasEq {
                alias: AliasTy::Projection(ProjectionTy {
                    associated_ty_id: AssocTypeId(raw(n(v))),
                    substitution: Substitution::from_iter(I, std::iter::once(dyn_self()).chain(init.iter().map(arg_of))),
                }),
                ty: ty_of(last),
            })
        }
        other => panic!("not a where clause kind: {}", other),
    };
    Binders::new(
        VariableKinds::from_iter(I, (0..nb).map(|_| VariableKind::Lifetime)),
        wc,
    )
}

pub fn ty_of(v: &Value) -> Ty<ChalkIr> {
    let args = a(v);
    match k(v) {
        "adt" => TyKind::Adt(AdtId(raw(n(v))), subst_of(args)),
        "tuple" => TyKind::Tuple(args.len(), subst_of(args)),
        "slice" => TyKind::Slice(ty_of(&args[0])),
        "array" => TyKind::Array(ty_of(&args[0]), const_of(&args[1])),
        "ref" => TyKind::Ref(mutability(m(v)), lt_of(&args[0]), ty_of(&args[1])),
        "raw" => TyKind::Raw(mutability(m(v)), ty_of(&args[0])),
        "scalar" => TyKind::Scalar(scalar_of(n(v))),
        "str" => TyKind::Str,
        "never" => TyKind::Never,
        "error" => TyKind::Error,
        "fnptr" => TyKind::Function(FnPointer {
            num_binders: n(v),
            sig: FnSig {
                abi: ChalkFnAbi::Rust,
                safety: Safety::Safe,
                variadic: false,
            },
            substitution: FnSubst(subst_of(args)),
        }),
        "dyn" => {
            let (lt, bounds) = args.split_first().expect("dyn needs a lifetime");
            TyKind::Dyn(DynTy {
                bounds: Binders::new(
                    VariableKinds::from1(I, VariableKind::Ty(TyVariableKind::General)),
                    QuantifiedWhereClauses::from_iter(I, bounds.iter().map(wc_of)),
                ),
                lifetime: lt_of(lt),
            })
        }
        "proj" => TyKind::Alias(AliasTy::Projection(ProjectionTy {
            associated_ty_id: AssocTypeId(raw(n(v))),
            substitution: subst_of(args),
        })),
        "opaque" => TyKind::Alias(AliasTy::Opaque(OpaqueTy {
            opaque_ty_id: OpaqueTyId(raw(n(v))),
            substitution: subst_of(args),
        })),
        "bound" => TyKind::BoundVar(bound(v)),
        "infer" => TyKind::InferenceVar(
            InferenceVar::from(var_index(n(v))),
            match m(v) {
                1 => TyVariableKind::Integer,
                2 => TyVariableKind::Float,
                _ => TyVariableKind::General,
            },
        ),
        "ph" => TyKind::Placeholder(ph(v)),
        other => panic!("not a type kind: {}", other),
    }
    .intern(I)
}

// ------------------------------------------------------------------------------------------
// projection back

fn t(kind: &str, nn: usize, mm: usize, args: Vec<Value>) -> Value {
    json!({"k": kind, "n": nn, "m": mm, "a": args})
}
fn mutno(mu: &Mutability) -> usize {
    match mu {
        Mutability::Mut => 1,
        Mutability::Not => 0,
    }
}

pub fn lt_json(l: &Lifetime<ChalkIr>) -> Value {
    match l.data(I) {
        LifetimeData::Static => t("lstatic", 0, 0, vec![]),
        LifetimeData::Erased => t("lerased", 0, 0, vec![]),
        LifetimeData::Error => t("lerror", 0, 0, vec![]),
        LifetimeData::InferenceVar(v) => t("linfer", v.index() as usize, 0, vec![]),
        LifetimeData::Placeholder(p) => t("lph", p.ui.counter, p.idx, vec![]),
        LifetimeData::BoundVar(b) => t("lbound", b.debruijn.depth() as usize, b.index, vec![]),
        LifetimeData::Phantom(..) => unreachable!(),
    }
}

pub fn const_json(c: &Const<ChalkIr>) -> Value {
    let d = c.data(I);
    let ty = vec![ty_json(&d.ty)];
    match &d.value {
        ConstValue::Concrete(cc) => t("cval", cc.interned as usize, 0, ty),
        ConstValue::InferenceVar(v) => t("cinfer", v.index() as usize, 0, ty),
        ConstValue::Placeholder(p) => t("cph", p.ui.counter, p.idx, ty),
        ConstValue::BoundVar(b) => t("cbound", b.debruijn.depth() as usize, b.index, ty),
    }
}

pub fn arg_json(g: &GenericArg<ChalkIr>) -> Value {
    match g.data(I) {
        GenericArgData::Ty(x) => ty_json(x),
        GenericArgData::Lifetime(x) => lt_json(x),
        GenericArgData::Const(x) => const_json(x),
    }
}

fn subst_json(s: &Substitution<ChalkIr>) -> Vec<Value> {
    s.iter(I).map(arg_json).collect()
}

pub fn wc_json(q: &QuantifiedWhereClause<ChalkIr>) -> Value {
    let nb = q.binders.len(I);
    match q.skip_binders() {
        WhereClause::Implemented(tr) => t(
            "wc_impl",
            tr.trait_id.0.index as usize,
            nb,
            tr.substitution.iter(I).skip(1).map(arg_json).collect(),
        ),
        WhereClause::LifetimeOutlives(o) => t("wc_outl", 0, nb, vec![lt_json(&o.a), lt_json(&o.b)]),
        WhereClause::TypeOutlives(o) => t("wc_tyoutl", 0, nb, vec![ty_json(&o.ty), lt_json(&o.lifetime)]),
        WhereClause::AliasEq(ae) => match &ae.alias {
            AliasTy::Projection(p) => {
                let mut args: Vec<Value> = p.substitution.iter(I).skip(1).map(arg_json).collect();
                args.push(ty_json(&ae.ty));
                t("wc_aliaseq", p.associated_ty_id.0.index as usize, nb, args)
            }
            AliasTy::Opaque(_) => t("wc_other", 0, nb, vec![]),
        },
    }
}

pub fn ty_json(ty: &Ty<ChalkIr>) -> Value {
    match ty.kind(I) {
        TyKind::Adt(id, s) => t("adt", id.0.index as usize, 0, subst_json(s)),
        TyKind::Tuple(_, s) => t("tuple", 0, 0, subst_json(s)),
        TyKind::Slice(x) => t("slice", 0, 0, vec![ty_json(x)]),
        TyKind::Array(x, c) => t("array", 0, 0, vec![ty_json(x), const_json(c)]),
        TyKind::Ref(mu, l, x) => t("ref", 0, mutno(mu), vec![lt_json(l), ty_json(x)]),
        TyKind::Raw(mu, x) => t("raw", 0, mutno(mu), vec![ty_json(x)]),
        TyKind::Scalar(s) => t("scalar", scalar_no(s), 0, vec![]),
        TyKind::Str => t("str", 0, 0, vec![]),
        TyKind::Never => t("never", 0, 0, vec![]),
        TyKind::Error => t("error", 0, 0, vec![]),
        TyKind::Function(f) => t("fnptr", f.num_binders, 0, subst_json(&f.substitution.0)),
        TyKind::Dyn(d) => {
            let mut args = vec![lt_json(&d.lifetime)];
            args.extend(d.bounds.skip_binders().iter(I).map(wc_json));
            t("dyn", 0, 0, args)
        }
        TyKind::Alias(AliasTy::Projection(p)) => {
            t("proj", p.associated_ty_id.0.index as usize, 0, subst_json(&p.substitution))
        }
        TyKind::Alias(AliasTy::Opaque(o)) => t("opaque", o.opaque_ty_id.0.index as usize, 0, subst_json(&o.substitution)),
        TyKind::BoundVar(b) => t("bound", b.debruijn.depth() as usize, b.index, vec![]),
        TyKind::InferenceVar(v, kind) => t(
            "infer",
            v.index() as usize,
            match kind {
                TyVariableKind::General => 0,
                TyVariableKind::Integer => 1,
                TyVariableKind::Float => 2,
            },
            vec![],
        ),
        TyKind::Placeholder(p) => t("ph", p.ui.counter, p.idx, vec![]),
        other => t("other", 0, 0, vec![json!(format!("{:?}", other))]),
    }
}

pub fn flag_names(f: TypeFlags) -> Vec<&'static str> {
    let all = [
        (TypeFlags::HAS_TY_INFER, "HAS_TY_INFER"),
        (TypeFlags::HAS_RE_INFER, "HAS_RE_INFER"),
        (TypeFlags::HAS_CT_INFER, "HAS_CT_INFER"),
        (TypeFlags::HAS_TY_PLACEHOLDER, "HAS_TY_PLACEHOLDER"),
        (TypeFlags::HAS_RE_PLACEHOLDER, "HAS_RE_PLACEHOLDER"),
        (TypeFlags::HAS_CT_PLACEHOLDER, "HAS_CT_PLACEHOLDER"),
        (TypeFlags::HAS_FREE_LOCAL_REGIONS, "HAS_FREE_LOCAL_REGIONS"),
        (TypeFlags::HAS_TY_PROJECTION, "HAS_TY_PROJECTION"),
        (TypeFlags::HAS_TY_OPAQUE, "HAS_TY_OPAQUE"),
        (TypeFlags::HAS_CT_PROJECTION, "HAS_CT_PROJECTION"),
        (TypeFlags::HAS_ERROR, "HAS_ERROR"),
        (TypeFlags::HAS_RE_ERROR, "HAS_RE_ERROR"),
        (TypeFlags::HAS_FREE_REGIONS, "HAS_FREE_REGIONS"),
        (TypeFlags::HAS_RE_LATE_BOUND, "HAS_RE_LATE_BOUND"),
        (TypeFlags::HAS_RE_ERASED, "HAS_RE_ERASED"),
        (TypeFlags::STILL_FURTHER_SPECIALIZABLE, "STILL_FURTHER_SPECIALIZABLE"),
    ];
    all.iter().filter(|(b, _)| f.contains(*b)).map(|(_, s)| *s).collect()
}
