//! Mode `solve`: drive one solver instance through a history of operations on one program.
//!
//! Job: {"id", "program", "checked"?, "solver": {"kind":"slg","max_size"} |
//!       {"kind":"rec","overflow","cache","max_size"}, "trace"?, "defs"?, "budget"?,
//!       "ops":[{"op":"solve"|"limited"|"multi","goal", "stop_at"?, "stop_mode"?("at"|"from"),
//!               "max"?, "panic_at"?, "fresh"? }], "limits"? (count size-limit events per op)}
//! Observation: {"id","error","results":[...],"events":[...]}

use crate::wrapdb::{Injected, WrapDb};
use chalk_integration::db::ChalkDatabase;
use chalk_integration::interner::ChalkIr;
use chalk_integration::lowering::lower_goal;
use chalk_integration::query::LoweringDatabase;
use chalk_integration::SolverChoice;
use chalk_ir::verif;
use chalk_solve::ext::*;
use chalk_solve::{Guidance, RustIrDatabase, Solution, Solver, SubstitutionResult};
use serde_json::{json, Value};
use std::cell::Cell;
use std::panic::{catch_unwind, AssertUnwindSafe};

pub fn choice_of(v: &Value) -> SolverChoice {
    match v["kind"].as_str().unwrap_or("slg") {
        "slg" => SolverChoice::SLG {
            max_size: v["max_size"].as_u64().unwrap_or(10) as usize,
            expected_answers: None,
        },
        _ => SolverChoice::Recursive {
            overflow_depth: v["overflow"].as_u64().unwrap_or(100) as usize,
            caching_enabled: v["cache"].as_bool().unwrap_or(true),
            max_size: v["max_size"].as_u64().unwrap_or(30) as usize,
        },
    }
}

pub fn solution_class(s: &Option<Solution<ChalkIr>>) -> &'static str {
    match s {
        None => "None",
        Some(Solution::Unique(_)) => "Unique",
        Some(Solution::Ambig(Guidance::Definite(_))) => "Definite",
        Some(Solution::Ambig(Guidance::Suggested(_))) => "Suggested",
        Some(Solution::Ambig(Guidance::Unknown)) => "Unknown",
    }
}

pub fn solution_text(s: &Option<Solution<ChalkIr>>) -> String {
    match s {
        None => "No possible solution".to_string(),
        Some(s) => {
            // sort constraints as the test-suite does
            let mut s = s.clone();
            if let Solution::Unique(u) = &mut s {
                let mut sorted = u.value.constraints.as_slice(ChalkIr).to_vec();
                sorted.sort_by_key(|c| format!("{:?}", c));
                u.value.constraints = chalk_ir::Constraints::from_iter(ChalkIr, sorted);
            }
            format!("{}", s.display(ChalkIr))
        }
    }
}

/// Structured form of a solution: substitution entries and lifetime constraints as abstract terms.
pub fn solution_detail(s: &Option<Solution<ChalkIr>>) -> Value {
    use crate::terms::{arg_json, lt_json};
    use chalk_ir::{DomainGoal, GoalData, VariableKind, TyVariableKind, WhereClause};
    let kinds = |b: &chalk_ir::CanonicalVarKinds<ChalkIr>| -> Vec<Value> {
        b.iter(ChalkIr)
            .map(|k| {
                let kind = match &k.kind {
                    VariableKind::Ty(TyVariableKind::General) => "ty",
                    VariableKind::Ty(TyVariableKind::Integer) => "int",
                    VariableKind::Ty(TyVariableKind::Float) => "float",
                    VariableKind::Lifetime => "lt",
                    VariableKind::Const(_) => "const",
                };
                json!({"kind": kind, "u": k.skip_kind().counter})
            })
            .collect()
    };
    match s {
        None => json!(null),
        Some(Solution::Unique(c)) => {
            let subst: Vec<Value> = c.value.subst.iter(ChalkIr).map(arg_json).collect();
            let mut cons: Vec<Value> = Vec::new();
            for ie in c.value.constraints.iter(ChalkIr) {
                match &ie.goal {
                    chalk_ir::Constraint::LifetimeOutlives(a, b) => cons.push(json!({"c": "outlives", "a": lt_json(a), "b": lt_json(b)})),
                    chalk_ir::Constraint::TypeOutlives(t, l) => cons.push(json!({"c": "tyoutlives", "t": crate::terms::ty_json(t), "l": lt_json(l)})),
                }
            }
            let _ = (DomainGoal::<ChalkIr>::Compatible, GoalData::<ChalkIr>::CannotProve, WhereClause::<ChalkIr>::LifetimeOutlives);
            json!({"subst": subst, "constraints": cons, "binders": kinds(&c.binders)})
        }
        Some(Solution::Ambig(Guidance::Definite(c))) | Some(Solution::Ambig(Guidance::Suggested(c))) => {
            let subst: Vec<Value> = c.value.iter(ChalkIr).map(arg_json).collect();
            json!({"subst": subst, "constraints": [], "binders": kinds(&c.binders)})
        }
        Some(Solution::Ambig(Guidance::Unknown)) => json!(null),
    }
}

fn panic_text(p: Box<dyn std::any::Any + Send>) -> String {
    if let Some(i) = p.downcast_ref::<Injected>() {
        format!("injected@{}", i.0)
    } else if let Some(b) = p.downcast_ref::<verif::BudgetExceeded>() {
        format!("budget@{}", b.0)
    } else if let Some(s) = p.downcast_ref::<&str>() {
        format!("panic: {}", s)
    } else if let Some(s) = p.downcast_ref::<String>() {
        format!("panic: {}", s)
    } else {
        "panic: <non-string payload>".to_string()
    }
}

pub fn run_job(line: &str) -> String {
    let job: Value = match serde_json::from_str(line) {
        Ok(v) => v,
        Err(e) => return json!({"id": null, "error": format!("bad job: {}", e)}).to_string(),
    };
    let id = job["id"].clone();
    let res = catch_unwind(AssertUnwindSafe(|| run_job_inner(&job)));
    match res {
        Ok(s) => s,
        Err(p) => {
            let _ = verif::uninstall();
            json!({"id": id, "error": format!("harness panic: {}", panic_text(p))}).to_string()
        }
    }
}

fn run_job_inner(job: &Value) -> String {
    let id = job["id"].clone();
    let program_text = job["program"].as_str().unwrap_or("");
    let db = ChalkDatabase::with(program_text, SolverChoice::default());
    let program = if job["checked"].as_bool().unwrap_or(false) {
        db.checked_program()
    } else {
        db.program_ir()
    };
    let program = match program {
        Ok(p) => p,
        Err(e) => {
            return json!({"id": id, "error": format!("lowering: {}", e)}).to_string();
        }
    };
    let choice = choice_of(&job["solver"]);
    let trace = job["trace"].as_bool().unwrap_or(false);
    let defs = job["defs"].as_bool().unwrap_or(false);
    let limits = job["limits"].as_bool().unwrap_or(false);
    let budget = job["budget"].as_u64().or(if limits { Some(u64::MAX / 4) } else { None });
    let detail = job["detail"].as_bool().unwrap_or(false);
    let mut solver: Box<dyn Solver<ChalkIr>> = choice.into_solver();
    let wdb = WrapDb::new(&db);
    let mut results: Vec<Value> = Vec::new();
    let mut all_events: Vec<String> = Vec::new();
    let empty = vec![];
    let ops = job["ops"].as_array().unwrap_or(&empty);
    chalk_integration::tls::set_current_program(&program, || {
        for (opi, op) in ops.iter().enumerate() {
            let kind = op["op"].as_str().unwrap_or("solve");
            let goal_text = op["goal"].as_str().unwrap_or("");
            let goal = chalk_parse::parse_goal(goal_text)
                .map_err(|e| format!("{}", e))
                .and_then(|g| lower_goal(&*g, &*program).map_err(|e| format!("{}", e)));
            let goal = match goal {
                Ok(g) => g,
                Err(e) => {
                    results.push(json!({"error": format!("goal: {}", e)}));
                    continue;
                }
            };
            let peeled = goal.into_peeled_goal(db.interner());
            if op["fresh"].as_bool().unwrap_or(false) {
                solver = choice.into_solver();
            }
            if trace {
                verif::install(defs, budget);
                verif::emit("Op", |f| {
                    f.int("idx", opi + 1).str("kind", kind);
                });
            } else if budget.is_some() {
                verif::install(false, budget);
            }
            let calls0 = wdb.calls.get();
            wdb.log_calls.set(trace && job["dbcalls"].as_bool().unwrap_or(false));
            wdb.panic_at
                .set(op["panic_at"].as_u64().map(|n| calls0 + n));
            let cb_count = Cell::new(0u64);
            let stop_at = op["stop_at"].as_u64();
            let stop_from = op["stop_mode"].as_str() == Some("from");
            let should_continue = || {
                let n = cb_count.get() + 1;
                cb_count.set(n);
                match stop_at {
                    Some(k) if (n == k) || (stop_from && n > k) => false,
                    _ => true,
                }
            };
            let mut items: Vec<Value> = Vec::new();
            let outcome = catch_unwind(AssertUnwindSafe(|| match kind {
                "solve" => {
                    let s = solver.solve(&wdb, &peeled);
                    if detail {
                        json!({"class": solution_class(&s), "text": solution_text(&s), "detail": solution_detail(&s)})
                    } else {
                        json!({"class": solution_class(&s), "text": solution_text(&s)})
                    }
                }
                "limited" => {
                    let s = solver.solve_limited(&wdb, &peeled, &should_continue);
                    if detail {
                        json!({"class": solution_class(&s), "text": solution_text(&s), "detail": solution_detail(&s)})
                    } else {
                        json!({"class": solution_class(&s), "text": solution_text(&s)})
                    }
                }
                "multi" => {
                    let max = op["max"].as_u64().unwrap_or(10);
                    let mut n = 0u64;
                    let done = solver.solve_multiple(&wdb, &peeled, &mut |r, more| {
                        n += 1;
                        let (k, text) = match &r {
                            SubstitutionResult::Definite(s) => {
                                ("Definite", format!("{}", s.display(ChalkIr)))
                            }
                            SubstitutionResult::Ambiguous(s) => {
                                ("Ambiguous", format!("{}", s.display(ChalkIr)))
                            }
                            SubstitutionResult::Floundered => ("Floundered", String::new()),
                        };
                        verif::emit("Cb", |f| {
                            f.str("kind", k).bool("more", more);
                        });
                        let det = match &r {
                            SubstitutionResult::Definite(s) | SubstitutionResult::Ambiguous(s) if detail => {
                                let kinds: Vec<Value> = s.binders.iter(ChalkIr).map(|k| {
                                    let kind = match &k.kind {
                                        chalk_ir::VariableKind::Ty(chalk_ir::TyVariableKind::General) => "ty",
                                        chalk_ir::VariableKind::Ty(chalk_ir::TyVariableKind::Integer) => "int",
                                        chalk_ir::VariableKind::Ty(chalk_ir::TyVariableKind::Float) => "float",
                                        chalk_ir::VariableKind::Lifetime => "lt",
                                        chalk_ir::VariableKind::Const(_) => "const",
                                    };
                                    json!({"kind": kind, "u": k.skip_kind().counter})
                                }).collect();
                                json!({"subst": s.value.subst.iter(ChalkIr).map(crate::terms::arg_json).collect::<Vec<_>>(), "binders": kinds})
                            }
                            _ => json!(null),
                        };
                        items.push(json!({"kind": k, "text": text, "more": more, "detail": det}));
                        n < max
                    });
                    json!({"class": if done {"Done"} else {"Stopped"}, "text": ""})
                }
                _ => json!({"error": "unknown op"}),
            }));
            wdb.panic_at.set(None);
            let mut r = match outcome {
                Ok(v) => v,
                Err(p) => {
                    let t = panic_text(p);
                    json!({"class": "Panic", "text": t})
                }
            };
            let class = r["class"].as_str().unwrap_or("").to_string();
            if trace || budget.is_some() {
                // emit the end marker with the budget lifted
                verif::set_budget(None);
                verif::emit("OpEnd", |f| {
                    f.str("class", &class);
                });
                let evs = verif::uninstall();
                r["nevents"] = json!(evs.len());
                if limits {
                    // how often a size limit cut the search short (answer / subgoal too large)
                    r["limits"] = json!(evs
                        .iter()
                        .filter(|e| {
                            e.contains("\"ev\":\"AnswerTooLarge\"")
                                || e.contains("\"ev\":\"FlounderLit\"")
                                || e.contains("\"ev\":\"RecTruncated\"")
                        })
                        .count());
                }
                if trace {
                    all_events.extend(evs);
                }
            }
            if detail {
                let qb: Vec<Value> = peeled.canonical.binders.iter(ChalkIr).map(|k| {
                    let kind = match &k.kind {
                        chalk_ir::VariableKind::Ty(chalk_ir::TyVariableKind::General) => "ty",
                        chalk_ir::VariableKind::Ty(chalk_ir::TyVariableKind::Integer) => "int",
                        chalk_ir::VariableKind::Ty(chalk_ir::TyVariableKind::Float) => "float",
                        chalk_ir::VariableKind::Lifetime => "lt",
                        chalk_ir::VariableKind::Const(_) => "const",
                    };
                    json!({"kind": kind, "u": k.skip_kind().counter})
                }).collect();
                r["query"] = json!({"binders": qb, "universes": peeled.universes});
            }
            r["calls"] = json!(wdb.calls.get() - calls0);
            r["cb"] = json!(cb_count.get());
            if kind == "multi" {
                r["items"] = Value::Array(items);
            }
            results.push(r);
        }
    });
    let mut out = json!({"id": id, "error": null, "results": results}).to_string();
    // events are already JSON objects: splice them in textually
    out.pop();
    out.push_str(",\"events\":[");
    out.push_str(&all_events.join(","));
    out.push_str("]}");
    out
}
