//! Mode `logdb`: solve goals through `LoggingRustIrDatabase`, print the logged program,
//! re-lower it and solve the same goals again (C23).
//!
//! Job: {"id","program","solver","goals":[text..]}
//! Observation: {"id","error","first":[answer text..],"logged": program text,"second":[answer text..] | "relower_error": ..,
//!               "events":[Serve.. events of the inner database, Emit {structs, traits, impls}]}

use crate::solver::{choice_of, solution_text};
use crate::wrapdb::WrapDb;
use chalk_integration::db::ChalkDatabase;
use chalk_integration::interner::ChalkIr;
use chalk_integration::lowering::lower_goal;
use chalk_integration::query::LoweringDatabase;
use chalk_integration::SolverChoice;
use chalk_ir::verif;
use chalk_solve::ext::*;
use chalk_solve::logging_db::LoggingRustIrDatabase;
use chalk_solve::RustIrDatabase;
use serde_json::{json, Value};
use std::panic::{catch_unwind, AssertUnwindSafe};

fn solve_all(db: &ChalkDatabase, through_logger: bool, job: &Value, logged: &mut Option<String>) -> Result<Vec<String>, String> {
    let program = db.program_ir().map_err(|e| format!("lowering: {}", e))?;
    let choice = choice_of(&job["solver"]);
    let wdb = WrapDb::new(db);
    wdb.log_serves.set(through_logger);
    let wrapped = LoggingRustIrDatabase::<ChalkIr, WrapDb, &WrapDb>::new(&wdb);
    let mut out = Vec::new();
    let empty = vec![];
    chalk_integration::tls::set_current_program(&program, || {
        for g in job["goals"].as_array().unwrap_or(&empty) {
            let text = g.as_str().unwrap_or("");
            let goal = chalk_parse::parse_goal(text)
                .map_err(|e| format!("{}", e))
                .and_then(|g| lower_goal(&*g, &*program).map_err(|e| format!("{}", e)));
            let goal = match goal {
                Ok(g) => g,
                Err(e) => {
                    out.push(format!("goal error: {}", e));
                    continue;
                }
            };
            let peeled = goal.into_peeled_goal(db.interner());
            let mut solver = choice.into_solver();
            let r = catch_unwind(AssertUnwindSafe(|| {
                if through_logger {
                    solver.solve(&wrapped, &peeled)
                } else {
                    solver.solve(&wdb, &peeled)
                }
            }));
            out.push(match r {
                Ok(s) => solution_text(&s),
                Err(_) => "PANIC".to_string(),
            });
        }
        if through_logger {
            *logged = Some(wrapped.to_string());
        }
    });
    Ok(out)
}

pub fn run_job(line: &str) -> String {
    let job: Value = match serde_json::from_str(line) {
        Ok(v) => v,
        Err(e) => return json!({"id": null, "error": format!("bad job: {}", e)}).to_string(),
    };
    let id = job["id"].clone();
    let r = catch_unwind(AssertUnwindSafe(|| {
        verif::install(false, None);
        let db = ChalkDatabase::with(job["program"].as_str().unwrap_or(""), SolverChoice::default());
        let mut logged = None;
        let first = solve_all(&db, true, &job, &mut logged);
        let evs = verif::uninstall();
        let first = match first {
            Ok(f) => f,
            Err(e) => return json!({"id": id, "error": e}).to_string(),
        };
        let logged = logged.unwrap_or_default();
        let db2 = ChalkDatabase::with(&logged, SolverChoice::default());
        let mut dummy = None;
        let second = solve_all(&db2, false, &job, &mut dummy);
        let mut out = match second {
            Ok(s) => json!({"id": id, "error": null, "first": first, "logged": logged, "second": s}),
            Err(e) => json!({"id": id, "error": null, "first": first, "logged": logged, "relower_error": e}),
        }
        .to_string();
        out.pop();
        out.push_str(",\"events\":[");
        out.push_str(&evs.join(","));
        out.push_str("]}");
        out
    }));
    match r {
        Ok(s) => s,
        Err(_) => {
            let _ = verif::uninstall();
            json!({"id": id, "error": "harness panic"}).to_string()
        }
    }
}
