//! Mode `terms`: pure operations of chalk-ir on abstract terms (C18, C25, C26).
//!
//! Job: {"id", "variances": {"<adt id>": ["co"|"contra"|"inv", ..]}, "items": [item..]}; item:
//!   {"op":"flags","t":T}                      -> {"flags":[names]}
//!   {"op":"shift_in","t":T}                   -> {"r":T'}           (shifted_in)
//!   {"op":"shift_out","t":T}                  -> {"r":T'|null}      (shifted_out)
//!   {"op":"subst","t":T,"params":[args]}      -> {"r":T'}           (Subst::apply)
//!   {"op":"fold_id","t":T}                    -> {"r":T'}           (fold with a folder that changes nothing)
//!   {"op":"could_match","a":T,"b":T}          -> {"r":bool}
//! A panic inside one item is reported as {"panic": text}.

use crate::terms::*;
use chalk_integration::interner::ChalkIr;
use chalk_ir::could_match::CouldMatch;
use chalk_ir::fold::shift::Shift;
use chalk_ir::fold::{FallibleTypeFolder, Subst, TypeFoldable};
use chalk_ir::*;
use serde_json::{json, Value};
use std::collections::HashMap;
use std::panic::{catch_unwind, AssertUnwindSafe};

#[derive(Debug, Default)]
pub struct VarDb {
    pub adt: HashMap<u32, Vec<Variance>>,
}
impl UnificationDatabase<ChalkIr> for VarDb {
    fn fn_def_variance(&self, _id: FnDefId<ChalkIr>) -> Variances<ChalkIr> {
        Variances::from_iter(ChalkIr, std::iter::empty::<Variance>())
    }
    fn adt_variance(&self, id: AdtId<ChalkIr>) -> Variances<ChalkIr> {
        let v = self.adt.get(&id.0.index).cloned().unwrap_or_else(|| vec![Variance::Invariant; 4]);
        Variances::from_iter(ChalkIr, v)
    }
}

pub fn variance_of(s: &str) -> Variance {
    match s {
        "co" => Variance::Covariant,
        "contra" => Variance::Contravariant,
        _ => Variance::Invariant,
    }
}

pub fn vardb_of(job: &Value) -> VarDb {
    let mut db = VarDb::default();
    if let Some(m) = job["variances"].as_object() {
        for (k, v) in m {
            let vs = v.as_array().map(|a| a.iter().map(|x| variance_of(x.as_str().unwrap_or("inv"))).collect()).unwrap_or_default();
            db.adt.insert(k.parse().unwrap_or(0), vs);
        }
    }
    db
}

struct Nop;
impl FallibleTypeFolder<ChalkIr> for Nop {
    type Error = ();
    fn as_dyn(&mut self) -> &mut dyn FallibleTypeFolder<ChalkIr, Error = ()> {
        self
    }
    fn interner(&self) -> ChalkIr {
        ChalkIr
    }
}

fn run_item(db: &VarDb, it: &Value) -> Value {
    match it["op"].as_str().unwrap_or("") {
        "flags" => {
            let ty = ty_of(&it["t"]);
            json!({"flags": flag_names(ty.data(ChalkIr).flags)})
        }
        "shift_in" => json!({"r": ty_json(&ty_of(&it["t"]).shifted_in(ChalkIr))}),
        "shift_out" => match ty_of(&it["t"]).shifted_out(ChalkIr) {
            Ok(t) => json!({"r": ty_json(&t)}),
            Err(_) => json!({"r": null}),
        },
        "subst" => {
            let params: Vec<GenericArg<ChalkIr>> =
                it["params"].as_array().map(|a| a.iter().map(arg_of).collect()).unwrap_or_default();
            json!({"r": ty_json(&Subst::apply(ChalkIr, &params, ty_of(&it["t"])))})
        }
        "fold_id" => {
            let t = ty_of(&it["t"]);
            let r = t.clone().try_fold_with(&mut Nop, DebruijnIndex::INNERMOST).unwrap();
            json!({"r": ty_json(&r), "eq": r == t})
        }
        "could_match" => {
            let a = ty_of(&it["a"]);
            let b = ty_of(&it["b"]);
            json!({"r": a.could_match(ChalkIr, db, &b)})
        }
        "could_match_args" => {
            let a: Vec<GenericArg<ChalkIr>> = it["a"].as_array().map(|x| x.iter().map(arg_of).collect()).unwrap_or_default();
            let b: Vec<GenericArg<ChalkIr>> = it["b"].as_array().map(|x| x.iter().map(arg_of).collect()).unwrap_or_default();
            json!({"r": a.as_slice().could_match(ChalkIr, db, b.as_slice())})
        }
        other => json!({"error": format!("unknown op {}", other)}),
    }
}

pub fn run_job(line: &str) -> String {
    let job: Value = match serde_json::from_str(line) {
        Ok(v) => v,
        Err(e) => return json!({"id": null, "error": format!("bad job: {}", e)}).to_string(),
    };
    let db = vardb_of(&job);
    let empty = vec![];
    let res: Vec<Value> = job["items"]
        .as_array()
        .unwrap_or(&empty)
        .iter()
        .map(|it| match catch_unwind(AssertUnwindSafe(|| run_item(&db, it))) {
            Ok(v) => v,
            Err(p) => {
                let s = p.downcast_ref::<String>().cloned().or_else(|| p.downcast_ref::<&str>().map(|s| s.to_string())).unwrap_or_default();
                json!({"panic": s})
            }
        })
        .collect();
    json!({"id": job["id"], "error": null, "results": res}).to_string()
}
