//! Mode `terms`: pure operations of chalk-ir on abstract terms (C18, C25, C26).
//!
//! Job: {"id", "variances": {"<adt id>": ["co"|"contra"|"inv", ..]}, "items": [item..]}; item:
//!   {"op":"flags","t":T}                      -> {"flags":[names]}
//!   {"op":"shift_in","t":T}                   -> {"r":T'}           (shifted_in)
//!   {"op":"shift_out","t":T}                  -> {"r":T'|null}      (shifted_out)
//!   {"op":"subst","t":T,"params":[args]}      -> {"r":T'}           (Subst::apply)
//!   {"op":"fold_id","t":T}                    -> {"r":T'}           (fold with a folder that changes nothing)
//!   {"op":"could_match","a":T,"b":T}          -> {"r":bool}
//! A panic inside one item is reported as {"panic": text}.

use crate::terms::*;
use chalk_integration::interner::ChalkIr;
use chalk_ir::could_match::CouldMatch;
use chalk_ir::fold::shift::Shift;
use chalk_ir::fold::{FallibleTypeFolder, Subst, TypeFoldable};
use chalk_ir::*;
use serde_json::{json, Value};
use std::collections::HashMap;
use std::panic::{catch_unwind, AssertUnwindSafe};

#[derive(Debug, Default)]
pub struct VarDb {
    pub adt: HashMap<u32, Vec<Variance>>,
}
impl UnificationDatabase<ChalkIr> for VarDb {
    fn fn_def_variance(&self, _id: FnDefId<ChalkIr>) -> Variances<ChalkIr> {
        Variances::from_iter(ChalkIr, std::iter::empty::<Variance>())
    }
    fn adt_variance(&self, id: AdtId<ChalkIr>) -> Variances<ChalkIr> {
        let v = self.adt.get(&id.0.index).cloned().unwrap_or_else(|| vec![Variance::Invariant; 4]);
        Variances::from_iter(ChalkIr, v)
    }
}

pub fn variance_of(s: &str) -> Variance {
    match s {
        "co" => Variance::Covariant,
        "contra" => Variance::Contravariant,
        _ => Variance::Invariant,
    }
}

pub fn vardb_of(job: &Value) -> VarDb {
    let mut db = VarDb::default();
    if let Some(m) = job["variances"].as_object() {
        for (k, v) in m {
            let vs = v.as_array().map(|a| a.iter().map(|x| variance_of(x.as_str().unwrap_or("inv"))).collect()).unwrap_or_default();
            db.adt.insert(k.parse().unwrap_or(0), vs);
        }
    }
    db
}

/// A canonical substitution from a list of generic arguments whose unknowns are ^0.i
fn canon_subst(v: &Value) -> Canonical<Substitution<ChalkIr>> {
    let args: Vec<GenericArg<ChalkIr>> = v.as_array().map(|a| a.iter().map(arg_of).collect()).unwrap_or_default();
    // binders: one per distinct bound index, kind taken from its first occurrence
    let mut kinds: Vec<(usize, VariableKind<ChalkIr>)> = Vec::new();
    fn walk(v: &Value, kinds: &mut Vec<(usize, VariableKind<ChalkIr>)>) {
        let k = v["k"].as_str().unwrap_or("");
        let m = v["m"].as_u64().unwrap_or(0) as usize;
        let kind = match k {
            "bound" => Some(VariableKind::Ty(TyVariableKind::General)),
            "lbound" => Some(VariableKind::Lifetime),
            "cbound" => Some(VariableKind::Const(TyKind::Scalar(Scalar::Uint(UintTy::Usize)).intern(ChalkIr))),
            _ => None,
        };
        if let Some(kind) = kind {
            if !kinds.iter().any(|(i, _)| *i == m) {
                kinds.push((m, kind));
            }
        }
        if let Some(a) = v["a"].as_array() {
            for x in a {
                walk(x, kinds);
            }
        }
    }
    if let Some(a) = v.as_array() {
        for x in a {
            walk(x, &mut kinds);
        }
    }
    kinds.sort_by_key(|(i, _)| *i);
    Canonical {
        binders: CanonicalVarKinds::from_iter(ChalkIr, kinds.into_iter().map(|(_, k)| WithKind::new(k, UniverseIndex::ROOT))),
        value: Substitution::from_iter(ChalkIr, args),
    }
}

fn subst_by_id(id: u64) -> Canonical<Substitution<ChalkIr>> {
    // 1, 2: two different closed substitutions; 3: the identity substitution of one variable
    let s = match id {
        1 => json!([{"k":"scalar","n":4,"m":0,"a":[]}]),
        2 => json!([{"k":"scalar","n":3,"m":0,"a":[]}]),
        _ => json!([{"k":"bound","n":0,"m":0,"a":[]}]),
    };
    canon_subst(&s)
}

fn solution_of(v: &Value) -> chalk_solve::Solution<ChalkIr> {
    use chalk_solve::{Guidance, Solution};
    let s = subst_by_id(v["s"].as_u64().unwrap_or(0));
    match v["kind"].as_str().unwrap_or("") {
        "Unique" => Solution::Unique(Canonical {
            binders: s.binders.clone(),
            value: ConstrainedSubst { subst: s.value.clone(), constraints: Constraints::empty(ChalkIr) },
        }),
        "Definite" => Solution::Ambig(Guidance::Definite(s)),
        "Suggested" => Solution::Ambig(Guidance::Suggested(s)),
        _ => Solution::Ambig(Guidance::Unknown),
    }
}
fn solution_kind(s: &chalk_solve::Solution<ChalkIr>) -> &'static str {
    use chalk_solve::{Guidance, Solution};
    match s {
        Solution::Unique(_) => "Unique",
        Solution::Ambig(Guidance::Definite(_)) => "Definite",
        Solution::Ambig(Guidance::Suggested(_)) => "Suggested",
        Solution::Ambig(Guidance::Unknown) => "Unknown",
    }
}
fn subst_in(s: &chalk_solve::Solution<ChalkIr>) -> Option<Substitution<ChalkIr>> {
    use chalk_solve::{Guidance, Solution};
    match s {
        Solution::Unique(c) => Some(c.value.subst.clone()),
        Solution::Ambig(Guidance::Definite(c)) | Solution::Ambig(Guidance::Suggested(c)) => Some(c.value.clone()),
        Solution::Ambig(Guidance::Unknown) => None,
    }
}
fn same_subst(a: &chalk_solve::Solution<ChalkIr>, b: &chalk_solve::Solution<ChalkIr>) -> bool {
    subst_in(a).is_some() && subst_in(a) == subst_in(b)
}

struct Nop;
impl FallibleTypeFolder<ChalkIr> for Nop {
    type Error = ();
    fn as_dyn(&mut self) -> &mut dyn FallibleTypeFolder<ChalkIr, Error = ()> {
        self
    }
    fn interner(&self) -> ChalkIr {
        ChalkIr
    }
}

fn run_item(db: &VarDb, it: &Value) -> Value {
    match it["op"].as_str().unwrap_or("") {
        "flags" => {
            let ty = ty_of(&it["t"]);
            json!({"flags": flag_names(ty.data(ChalkIr).flags)})
        }
        "shift_in" => json!({"r": ty_json(&ty_of(&it["t"]).shifted_in(ChalkIr))}),
        "shift_out" => match ty_of(&it["t"]).shifted_out(ChalkIr) {
            Ok(t) => json!({"r": ty_json(&t)}),
            Err(_) => json!({"r": null}),
        },
        "subst" => {
            let params: Vec<GenericArg<ChalkIr>> =
                it["params"].as_array().map(|a| a.iter().map(arg_of).collect()).unwrap_or_default();
            json!({"r": ty_json(&Subst::apply(ChalkIr, &params, ty_of(&it["t"])))})
        }
        "fold_id" => {
            let t = ty_of(&it["t"]);
            let r = t.clone().try_fold_with(&mut Nop, DebruijnIndex::INNERMOST).unwrap();
            json!({"r": ty_json(&r), "eq": r == t})
        }
        "could_match" => {
            let a = ty_of(&it["a"]);
            let b = ty_of(&it["b"]);
            json!({"r": a.could_match(ChalkIr, db, &b)})
        }
        "could_match_args" => {
            let a: Vec<GenericArg<ChalkIr>> = it["a"].as_array().map(|x| x.iter().map(arg_of).collect()).unwrap_or_default();
            let b: Vec<GenericArg<ChalkIr>> = it["b"].as_array().map(|x| x.iter().map(arg_of).collect()).unwrap_or_default();
            json!({"r": a.as_slice().could_match(ChalkIr, db, b.as_slice())})
        }
        "merge" => {
            // cur / new: canonical substitutions (unknowns = ^0.i); root: binder kinds of the root goal
            let cur = canon_subst(&it["cur"]);
            let new = canon_subst(&it["new"]);
            let answer = Canonical {
                binders: new.binders.clone(),
                value: ConstrainedSubst { subst: new.value.clone(), constraints: Constraints::empty(ChalkIr) },
            };
            let nargs = cur.value.len(ChalkIr);
            let root: Canonical<InEnvironment<Goal<ChalkIr>>> = Canonical {
                binders: CanonicalVarKinds::from_iter(
                    ChalkIr,
                    cur.value.iter(ChalkIr).take(nargs).map(|g| {
                        let kind = match g.data(ChalkIr) {
                            GenericArgData::Ty(_) => VariableKind::Ty(TyVariableKind::General),
                            GenericArgData::Lifetime(_) => VariableKind::Lifetime,
                            GenericArgData::Const(c) => VariableKind::Const(c.data(ChalkIr).ty.clone()),
                        };
                        WithKind::new(kind, UniverseIndex::ROOT)
                    }),
                ),
                value: InEnvironment::new(&Environment::new(ChalkIr), GoalData::CannotProve.intern(ChalkIr)),
            };
            let merged = chalk_engine::slg::verif_merge_into_guidance(ChalkIr, &root, cur.clone(), &answer);
            let mi = chalk_engine::slg::verif_may_invalidate(ChalkIr, &new.value, &cur);
            json!({"merged": merged.value.iter(ChalkIr).map(arg_json).collect::<Vec<_>>(),
                   "nbinders": merged.binders.len(ChalkIr), "may_invalidate": mi})
        }
        "combine" => {
            let x = solution_of(&it["x"]);
            let y = solution_of(&it["y"]);
            let r = x.clone().combine(y.clone(), ChalkIr);
            let r2 = y.clone().combine(x.clone(), ChalkIr);
            json!({"kind": solution_kind(&r), "eq_x": r == x, "eq_y": r == y, "sym": r == r2,
                   "subst_of_x": same_subst(&r, &x), "subst_of_y": same_subst(&r, &y)})
        }
        other => json!({"error": format!("unknown op {}", other)}),
    }
}

pub fn run_job(line: &str) -> String {
    let job: Value = match serde_json::from_str(line) {
        Ok(v) => v,
        Err(e) => return json!({"id": null, "error": format!("bad job: {}", e)}).to_string(),
    };
    let db = vardb_of(&job);
    let empty = vec![];
    let res: Vec<Value> = job["items"]
        .as_array()
        .unwrap_or(&empty)
        .iter()
        .map(|it| match catch_unwind(AssertUnwindSafe(|| run_item(&db, it))) {
            Ok(v) => v,
            Err(p) => {
                let s = p.downcast_ref::<String>().cloned().or_else(|| p.downcast_ref::<&str>().map(|s| s.to_string())).unwrap_or_default();
                json!({"panic": s})
            }
        })
        .collect();
    json!({"id": job["id"], "error": null, "results": res}).to_string()
}
