//! cvh — conformance harness binding the TLA+ specifications under /verif/spec to the
//! real chalk crates in /repo (built with `--cfg chalk_verif`).
//!
//! Usage: `cvh <mode> <jobs.ndjson> <out.ndjson>`; each input line is one job, each output
//! line the observation for that job. Modes are documented in the respective modules.

mod displayq;
mod inferops;
mod inplace;
mod logdb;
mod lowerq;
mod solver;
mod termops;
mod terms;
mod wrapdb;

#[global_allocator]
static ALLOC: inplace::WatchAlloc = inplace::WatchAlloc;

use std::io::{BufRead, BufReader, BufWriter, Write};

fn main() {
    let args: Vec<String> = std::env::args().collect();
    if args.len() < 4 {
        eprintln!("usage: cvh <mode> <in.ndjson> <out.ndjson> [start] [count]");
        std::process::exit(2);
    }
    let mode = args[1].as_str();
    let input = BufReader::new(std::fs::File::open(&args[2]).expect("open input"));
    let mut out = BufWriter::new(std::fs::File::create(&args[3]).expect("create output"));
    let start: usize = args.get(4).and_then(|s| s.parse().ok()).unwrap_or(0);
    let count: usize = args.get(5).and_then(|s| s.parse().ok()).unwrap_or(usize::MAX);
    // Silence the default panic hook: panics in code under test are data.
    std::panic::set_hook(Box::new(|_| {}));
    for (i, line) in input.lines().enumerate() {
        if i < start || i - start >= count {
            continue;
        }
        let line = line.expect("read line");
        if line.trim().is_empty() {
            continue;
        }
        // progress marker so that the driver can attribute an abort to a job
        {
            let mut p = std::fs::File::create(format!("{}.progress", &args[3])).unwrap();
            let _ = write!(p, "{}", i);
        }
        let res = match mode {
            "solve" => solver::run_job(&line),
            "inplace" => inplace::run_job(&line),
            "lower" => lowerq::run_job(&line),
            "parse" => lowerq::run_parse_job(&line),
            "terms" => termops::run_job(&line),
            "infer" => inferops::run_job(&line),
            "logdb" => logdb::run_job(&line),
            "display" => displayq::run_job(&line),
            _ => {
                eprintln!("unknown mode {}", mode);
                std::process::exit(2);
            }
        };
        writeln!(out, "{}", res).unwrap();
        out.flush().unwrap();
    }
}
