//! Mode `inplace`: drive chalk-ir's in-place `Vec` / `Box` map (fold/in_place.rs) with
//! drop-recording element types, for one input of InPlace.tla.
//!
//! Job: {"id", "via": "hook"|"api", "inp": {"kind":"vec"|"box","n","failAt","mode":"err"|"panic",
//!       "inplace":bool,"zst":bool}}
//! Observation: {"id","error","events":[{"ev","i",..}],"outcome":"ok"|"err"|"panic","frees":n}
//!
//! The buffer handed to the code under test is *watched* by the global allocator: its
//! deallocation is counted and quarantined (never really freed), so a second free is observed
//! instead of corrupting the heap, and the address cannot be reused.

use chalk_integration::interner::ChalkIr;
use chalk_ir::fold::{FallibleTypeFolder, TypeFoldable};
use chalk_ir::{verif, DebruijnIndex};
use serde_json::{json, Value};
use std::alloc::{GlobalAlloc, Layout, System};
use std::panic::{catch_unwind, AssertUnwindSafe};
use std::sync::atomic::{AtomicUsize, Ordering};

pub struct WatchAlloc;
static WATCH: AtomicUsize = AtomicUsize::new(0);
static FREED: AtomicUsize = AtomicUsize::new(0);

unsafe impl GlobalAlloc for WatchAlloc {
    unsafe fn alloc(&self, l: Layout) -> *mut u8 {
        System.alloc(l)
    }
    unsafe fn dealloc(&self, p: *mut u8, l: Layout) {
        let w = WATCH.load(Ordering::Relaxed);
        if w != 0 && p as usize == w {
            FREED.fetch_add(1, Ordering::Relaxed);
            return; // quarantine
        }
        System.dealloc(p, l)
    }
    unsafe fn realloc(&self, p: *mut u8, l: Layout, n: usize) -> *mut u8 {
        System.realloc(p, l, n)
    }
}

fn ev(name: &str, i: i64) {
    verif::emit(name, |f| {
        f.raw("i", &i.to_string());
    });
}

/// Same layout before and after the map (`mapped` tells which side of the map it is).
#[derive(Debug)]
struct Tr {
    id: usize,
    mapped: bool,
}
impl Drop for Tr {
    fn drop(&mut self) {
        ev(if self.mapped { "ElemDropU" } else { "ElemDropT" }, self.id as i64);
    }
}
/// A mapped value whose layout differs from `Tr`'s (forces the fallback path).
struct Big {
    id: usize,
    _pad: [u64; 3],
}
impl Drop for Big {
    fn drop(&mut self) {
        ev("ElemDropU", self.id as i64);
    }
}
struct ZT;
impl Drop for ZT {
    fn drop(&mut self) {
        ev("ElemDropT", -1);
    }
}
struct ZU;
impl Drop for ZU {
    fn drop(&mut self) {
        ev("ElemDropU", -1);
    }
}

struct Plan {
    fail_at: i64,
    panic: bool,
}

fn decide(plan: &Plan, id: usize) -> bool {
    plan.fail_at >= 0 && id as i64 == plan.fail_at
}

fn fail<U>(plan: &Plan, id: usize) -> Result<U, ()> {
    ev("MapFail", id as i64);
    if plan.panic {
        std::panic::panic_any("injected map panic");
    }
    Err(())
}

fn map_tr(plan: &Plan, t: Tr) -> Result<Tr, ()> {
    let id = t.id;
    if decide(plan, id) {
        drop(t);
        return fail(plan, id);
    }
    let mut t = std::mem::ManuallyDrop::new(t);
    t.mapped = true;
    ev("MapOk", id as i64);
    Ok(std::mem::ManuallyDrop::into_inner(t))
}

fn map_big(plan: &Plan, t: Tr) -> Result<Big, ()> {
    let id = t.id;
    if decide(plan, id) {
        drop(t);
        return fail(plan, id);
    }
    std::mem::forget(t);
    ev("MapOk", id as i64);
    Ok(Big { id, _pad: [0; 3] })
}

// ---- the public route: TypeFoldable for Vec<T> / Box<T> -----------------------------------
thread_local! { static PLAN: std::cell::Cell<(i64, bool)> = std::cell::Cell::new((-1, false)); }

impl TypeFoldable<ChalkIr> for Tr {
    fn try_fold_with<E>(
        self,
        _folder: &mut dyn FallibleTypeFolder<ChalkIr, Error = E>,
        _outer_binder: DebruijnIndex,
    ) -> Result<Self, E> {
        let (fail_at, panic) = PLAN.with(|p| p.get());
        let plan = Plan { fail_at, panic };
        match map_tr(&plan, self) {
            Ok(t) => Ok(t),
            Err(()) => Err(_folder.try_fold_free_placeholder_lifetime(
                chalk_ir::PlaceholderIndex { ui: chalk_ir::UniverseIndex::ROOT, idx: 0 },
                DebruijnIndex::INNERMOST,
            ).err().expect("folder must fail")),
        }
    }
}

struct FailFolder;
impl FallibleTypeFolder<ChalkIr> for FailFolder {
    type Error = ();
    fn as_dyn(&mut self) -> &mut dyn FallibleTypeFolder<ChalkIr, Error = ()> {
        self
    }
    fn try_fold_free_placeholder_lifetime(
        &mut self,
        _u: chalk_ir::PlaceholderIndex,
        _b: DebruijnIndex,
    ) -> Result<chalk_ir::Lifetime<ChalkIr>, ()> {
        Err(())
    }
    fn interner(&self) -> ChalkIr {
        ChalkIr
    }
}

pub fn run_job(line: &str) -> String {
    let job: Value = match serde_json::from_str(line) {
        Ok(v) => v,
        Err(e) => return json!({"id": null, "error": format!("bad job: {}", e)}).to_string(),
    };
    let id = job["id"].clone();
    let inp = &job["inp"];
    let via_api = job["via"].as_str() == Some("api");
    let kind = inp["kind"].as_str().unwrap_or("vec");
    let n = inp["n"].as_u64().unwrap_or(0) as usize;
    let plan = Plan {
        fail_at: inp["failAt"].as_i64().unwrap_or(-1),
        panic: inp["mode"].as_str() == Some("panic"),
    };
    let inplace = inp["inplace"].as_bool().unwrap_or(true);
    let zst = inp["zst"].as_bool().unwrap_or(false);
    PLAN.with(|p| p.set((plan.fail_at, plan.panic)));
    FREED.store(0, Ordering::Relaxed);
    WATCH.store(0, Ordering::Relaxed);
    verif::install(false, None);
    let mut watched = true;
    let outcome: &str;
    macro_rules! finish {
        ($r:expr) => {
            match $r {
                Ok(Ok(v)) => {
                    drop(v);
                    "ok"
                }
                Ok(Err(())) => "err",
                Err(_) => "panic",
            }
        };
    }
    if kind == "vec" {
        if zst {
            let mut v: Vec<ZT> = Vec::with_capacity(n + 2);
            for _ in 0..n {
                v.push(ZT);
            }
            watched = false; // a Vec of ZSTs owns no allocation
            let mut k = 0usize;
            let r = catch_unwind(AssertUnwindSafe(|| {
                chalk_ir::fold::verif_fallible_map_vec(v, |t: ZT| -> Result<ZU, ()> {
                    let id = k;
                    k += 1;
                    if decide(&plan, id) {
                        // the element events of a ZST carry no identity
                        drop(t);
                        return fail(&plan, id);
                    }
                    std::mem::forget(t);
                    ev("MapOk", id as i64);
                    Ok(ZU)
                })
            }));
            outcome = finish!(r);
        } else {
            let mut v: Vec<Tr> = Vec::with_capacity(n + 2);
            for i in 0..n {
                v.push(Tr { id: i, mapped: false });
            }
            WATCH.store(v.as_ptr() as usize, Ordering::Relaxed);
            if inplace && via_api {
                let r = catch_unwind(AssertUnwindSafe(|| {
                    v.try_fold_with(&mut FailFolder, DebruijnIndex::INNERMOST)
                }));
                outcome = finish!(r);
            } else if inplace {
                let r = catch_unwind(AssertUnwindSafe(|| {
                    chalk_ir::fold::verif_fallible_map_vec(v, |t| map_tr(&plan, t))
                }));
                outcome = finish!(r);
            } else {
                let r = catch_unwind(AssertUnwindSafe(|| {
                    chalk_ir::fold::verif_fallible_map_vec(v, |t| map_big(&plan, t))
                }));
                outcome = finish!(r);
            }
        }
    } else {
        // box
        if zst {
            watched = false;
            let b = Box::new(ZT);
            let r = catch_unwind(AssertUnwindSafe(|| {
                chalk_ir::fold::verif_fallible_map_box(b, |t: ZT| -> Result<ZU, ()> {
                    if decide(&plan, 0) {
                        drop(t);
                        return fail(&plan, 0);
                    }
                    std::mem::forget(t);
                    ev("MapOk", 0);
                    Ok(ZU)
                })
            }));
            outcome = finish!(r);
        } else {
            let b = Box::new(Tr { id: 0, mapped: false });
            WATCH.store(&*b as *const Tr as usize, Ordering::Relaxed);
            if inplace && via_api {
                let r = catch_unwind(AssertUnwindSafe(|| {
                    b.try_fold_with(&mut FailFolder, DebruijnIndex::INNERMOST)
                }));
                outcome = finish!(r);
            } else if inplace {
                let r = catch_unwind(AssertUnwindSafe(|| {
                    chalk_ir::fold::verif_fallible_map_box(b, |t| map_tr(&plan, t))
                }));
                outcome = finish!(r);
            } else {
                let r = catch_unwind(AssertUnwindSafe(|| {
                    chalk_ir::fold::verif_fallible_map_box(b, |t| map_big(&plan, t))
                }));
                outcome = finish!(r);
            }
        }
    }
    let frees = FREED.load(Ordering::Relaxed);
    WATCH.store(0, Ordering::Relaxed);
    let evs = verif::uninstall();
    let mut out = json!({"id": id, "error": null, "outcome": outcome, "frees": frees, "watched": watched})
        .to_string();
    out.pop();
    out.push_str(",\"events\":[");
    out.push_str(&evs.join(","));
    out.push_str("]}");
    out
}
