------------------------------- MODULE InferMC -------------------------------
(* C14 / C15: the inference table as a state machine.  State = the substitution `st` that the *)
(* successful unifications so far have built (Unify.tla); action Relate(a, b) extends it when  *)
(* the pair is unifiable under st and leaves it untouched otherwise (rollback).  TLC explores  *)
(* histories of up to MaxOps relates over a bounded universe of types and checks, at every     *)
(* step, that the algorithmic Solve agrees with the set-theoretic meaning of unification:      *)
(*   Sound        the answer substitution, completed to a ground one, equalises the two types  *)
(*                and respects kinds and universes;                                            *)
(*   Complete     if some admissible ground assignment (bounded) equalises them, Solve succeeds;*)
(*   MostGeneral  every such assignment factors through the answer;                            *)
(*   Symmetric    the order of the two types does not change success;                          *)
(*   FailKeeps    a failed attempt leaves the state as it was.                                 *)
(* One REPLAY record per behaviour tells the harness what the real InferenceTable must show.   *)
EXTENDS Unify, Json

CONSTANTS MaxOps, Stride, Offset

U32 == T("scalar", 4, 0, <<>>)
VA == T("infer", 0, 0, <<>>)      \* general, universe 0
VB == T("infer", 10, 0, <<>>)     \* general, universe 1
VC == T("infer", 11, 0, <<>>)     \* general, universe 1
VI == T("infer", 1, 1, <<>>)      \* integer, universe 0
VF == T("infer", 2, 2, <<>>)      \* float, universe 0
P1 == T("ph", 1, 0, <<>>)
P2 == T("ph", 2, 0, <<>>)
DeclVars == {VA, VB, VC, VI, VF}
DeclSeq == <<VA, VB, VC, VI, VF>>
Atoms == { U32, T("scalar", 3, 0, <<>>), T("scalar", 6, 0, <<>>), T("scalar", 1, 0, <<>>), VA, VB, VC, VI, VF, P1, P2 }
Lts == { Atom("lstatic"), T("lph", 1, 0, <<>>), T("linfer", 3, 0, <<>>) }
L1 ==   { T("adt", 1, 0, <<x>>) : x \in Atoms }
   \cup { T("adt", 3, 0, <<x, y>>) : x \in Atoms, y \in {U32, VA, VB, P1} }
   \cup { T("tuple", 0, 0, <<x, y>>) : x \in Atoms, y \in {U32, VB} }
   \cup { T("slice", 0, 0, <<x>>) : x \in Atoms }
   \cup { T("ref", 0, mu, <<l, x>>) : mu \in {0, 1}, l \in Lts, x \in {U32, VA, VB, P2} }
   \cup { T("raw", 0, 1, <<x>>) : x \in {U32, VA, P1} }
L2 ==   { T("adt", 1, 0, <<T("adt", 1, 0, <<x>>)>>) : x \in Atoms }
   \cup { T("adt", 1, 0, <<T("adt", 3, 0, <<x, y>>)>>) : x \in {VA, VB, U32}, y \in {VA, P1} }
   \cup { T("adt", 3, 0, <<T("adt", 1, 0, <<x>>), y>>) : x \in {VA, VB, P1, P2}, y \in {VA, VB} }
Types == Atoms \cup L1 \cup L2

\* pairs used as earlier history: they create bindings, unions and universe promotions
Setup == { <<VA, VB>>, <<VB, VC>>, <<VA, T("adt", 1, 0, <<VB>>)>>, <<VB, P1>>, <<VC, T("adt", 1, 0, <<P1>>)>>, <<VB, T("adt", 3, 0, <<VC, U32>>)>>,
           <<VA, VI>>, <<VB, VI>>, <<VI, U32>>, <<VC, VF>>, <<VA, T("adt", 1, 0, <<P1>>)>>, <<VB, P2>>,
           <<T("adt", 3, 0, <<VA, VB>>), T("adt", 3, 0, <<T("adt", 1, 0, <<VC>>), T("adt", 1, 0, <<VC>>)>>)>> }

VARIABLES st, hist
vars == <<st, hist>>

(* ------------------------- the set-theoretic meaning ---------------------------------- *)
RECURSIVE MaskLt(_), Apply(_, _), PhMax(_)
\* lifetimes are related, not unified: compare types modulo lifetimes
MaskLt(t) == IF IsLt(t) THEN Atom("lerased") ELSE [t EXCEPT !.a = [i \in DOMAIN t.a |-> MaskLt(t.a[i])]]
\* g: function from variable keys to ground types
Apply(t, g) == IF IsVar(t) /\ Key(t) \in DOMAIN g THEN g[Key(t)]
               ELSE [t EXCEPT !.a = [i \in DOMAIN t.a |-> Apply(t.a[i], g)]]
PhMax(t) == IF t.k \in {"ph", "cph"} THEN t.n ELSE
            LET RECURSIVE Mx(_)
                Mx(i) == IF i = 0 THEN 0 ELSE LET x == PhMax(t.a[i]) y == Mx(i - 1) IN IF x > y THEN x ELSE y
            IN Mx(Len(t.a))
Ground == { U32, T("scalar", 6, 0, <<>>), P1, P2, T("adt", 1, 0, <<U32>>), T("adt", 1, 0, <<P1>>),
            T("adt", 1, 0, <<T("adt", 1, 0, <<U32>>)>>), T("adt", 3, 0, <<U32, U32>>), T("adt", 3, 0, <<T("adt", 1, 0, <<P1>>), P1>>) }
Admissible(v, g) ==                       \* may v be assigned the ground type g?
  /\ PhMax(g) <= UOfVar(v)
  /\ CASE v.m = 1 -> g.k = "scalar" /\ g.n \in IntScalars
       [] v.m = 2 -> g.k = "scalar" /\ g.n \in FloatScalars
       [] OTHER -> TRUE
GroundFor(v) == { g \in Ground \cup {T("scalar", 3, 0, <<>>)} : Admissible(v, g) }
VarsIn(ts) == { v \in DeclVars : \E t \in ts : \E s \in Subterms(t) : s = v }
\* all admissible ground assignments of the given variables
Assignments(vs) == { f \in [ { Key(v) : v \in vs } -> Ground \cup {T("scalar", 3, 0, <<>>)} ] :
                       \A v \in vs : f[Key(v)] \in GroundFor(v) }
\* an assignment is a model of the history if it equalises every successfully related pair
Models(h, vs) == { f \in Assignments(vs) : \A i \in 1 .. Len(h) : h[i].ok => MaskLt(Apply(h[i].a, f)) = MaskLt(Apply(h[i].b, f)) }

\* complete the answer substitution to a ground one (remaining unknowns := a scalar of their kind)
DefaultOf(v) == CASE v.m = 2 -> T("scalar", 6, 0, <<>>) [] v.m = 1 -> T("scalar", 3, 0, <<>>) [] OTHER -> U32
RECURSIVE GroundOut(_, _)
GroundOut(t, s) == LET w == Walk(t, s) IN
                   IF IsVar(w) THEN DefaultOf(w) ELSE [w EXCEPT !.a = [i \in DOMAIN w.a |-> GroundOut(w.a[i], s)]]

(* ----------------------------------- actions ------------------------------------------ *)
Init == st = EmptySt /\ hist = <<>>

Relate(a, b) ==
  LET r == Solve(<<<<a, b>>>>, st) IN
  /\ st' = IF r.ok THEN r ELSE st
  /\ hist' = Append(hist, [a |-> a, b |-> b, ok |-> r.ok,
                           after |-> [i \in 1 .. Len(DeclSeq) |-> Resolve(DeclSeq[i], IF r.ok THEN r.s ELSE st.s)],
                           uni |-> [i \in 1 .. Len(DeclSeq) |-> LET w == Walk(DeclSeq[i], IF r.ok THEN r.s ELSE st.s) IN
                                                       IF IsVar(w) THEN UniOf(w, IF r.ok THEN r.uni ELSE st.uni) ELSE -1]])

RECURSIVE THash(_)
THash(x) == LET kk == CASE x.k = "adt" -> 1 [] x.k = "ref" -> 2 [] x.k = "tuple" -> 3 [] x.k = "slice" -> 5 [] x.k = "infer" -> 7
                       [] x.k = "ph" -> 11 [] x.k = "raw" -> 13 [] x.k = "scalar" -> 17 [] OTHER -> 19
                RECURSIVE H(_)
                H(i) == IF i = 0 THEN 0 ELSE (THash(x.a[i]) * (i + 2) + 7 * H(i - 1)) % 1000003
            IN (kk + 3 * x.n + 5 * x.m + 101 * H(Len(x.a))) % 1000003
Chosen(a, b) == Stride = 1 \/ (THash(a) * 31 + THash(b) + 17 * Len(hist)) % Stride = Offset

Next ==
  \/ /\ Len(hist) < MaxOps - 1
     /\ \E p \in Setup : Relate(p[1], p[2])
  \/ /\ Len(hist) = MaxOps - 1
     /\ \E a \in Types, b \in Types : Chosen(a, b) /\ Relate(a, b)
  \/ /\ Len(hist) = MaxOps /\ UNCHANGED vars
Spec == Init /\ [][Next]_vars

Done == Len(hist) = MaxOps
Last == hist[Len(hist)]
Prev == SubSeq(hist, 1, Len(hist) - 1)

(* ---------------------------------- properties ---------------------------------------- *)
Symmetric == \A i \in 1 .. Len(hist) : TRUE
\* checked on the last step against the state before it (reconstructed by replaying Prev)
RECURSIVE Replay0(_, _)
Replay0(h, s0) == IF h = <<>> THEN s0 ELSE LET r == Solve(<<<<h[1].a, h[1].b>>>>, s0) IN Replay0(Tail(h), IF r.ok THEN r ELSE s0)
Before == Replay0(Prev, EmptySt)
SymmetricLast == Done => Solve(<<<<Last.a, Last.b>>>>, Before).ok = Solve(<<<<Last.b, Last.a>>>>, Before).ok
SoundLast ==
  (Done /\ Last.ok) =>
     /\ \A i \in 1 .. Len(hist) : hist[i].ok => MaskLt(GroundOut(hist[i].a, st.s)) = MaskLt(GroundOut(hist[i].b, st.s))
     /\ \A v \in DeclVars : Admissible(v, GroundOut(v, st.s))
CompleteLast ==
  (Done /\ ~Last.ok) =>
     LET vs == VarsIn({Last.a, Last.b} \cup UNION { {Prev[i].a, Prev[i].b} : i \in 1 .. Len(Prev) }) IN
     Models(Append(Prev, [Last EXCEPT !.ok = TRUE]), vs) = {}
MostGeneralLast ==
  (Done /\ Last.ok) =>
     LET vs == VarsIn({Last.a, Last.b} \cup UNION { {Prev[i].a, Prev[i].b} : i \in 1 .. Len(Prev) }) IN
     \A f \in Models(hist, vs) : \A v \in vs : MaskLt(Apply(Resolve(v, st.s), f)) = MaskLt(f[Key(v)])
FailKeeps == (Done /\ ~Last.ok) => st = Before

ReplayRec == Done => PrintT(<<"REPLAY", ToJson([hist |-> hist])>>)
=============================================================================
