------------------------------- MODULE InPlace -------------------------------
(* Specification of chalk-ir/src/fold/in_place.rs as implemented: `fallible_map_vec`,      *)
(* the `VecMappedInPlace` drop guard, and `fallible_map_box`, one action per statement.  *)
(* The log holds what a caller can observe (drops, map calls).  Indices are 0-based as in the code.                   *)
(*                                                                                         *)
(* Abstract state: every element position is a *slot* of the buffer                        *)
(*    "T"    the original value lives in the buffer                                        *)
(*    "U"    the mapped value lives in the buffer                                          *)
(*    "Out"  the value was moved out with ptr::read (owned by `map` or by a local)         *)
(*    "Dead" the value was dropped in place                                                *)
(* plus per-identity drop counters (dropsT / dropsU), the owner of the buffer and the      *)
(* number of times it was freed.  `bad` records an access the Rust abstract machine        *)
(* forbids (read or drop_in_place of a slot that holds no live value of the type).         *)
EXTENDS Integers, Sequences, FiniteSets, TLC

VARIABLES inp,      \* [kind, n, failAt (-1 = never), mode, inplace, zst]
          slot, dropsT, dropsU,
          buf,      \* "caller" | "guard" | "iter" | "result" | "freed"
          frees, mip, i, pc, bad, log, held
          \* held: identity of a mapped value owned by a local (between map's return and the write)

vars == <<inp, slot, dropsT, dropsU, buf, frees, mip, i, pc, bad, log, held>>

Idx == 0 .. inp.n - 1

Ev(name, k) == [ev |-> name, i |-> k]

(* ---- the ranges the guard's Drop impl iterates over, exactly as written in the code --- *)
GuardURange == { k \in Idx : k < mip }            \* for i in 0..self.map_in_progress
GuardTRange == { k \in Idx : k > mip }            \* for i in (self.map_in_progress+1)..self.len

Inputs(MaxN) ==
  { r \in [kind : {"vec", "box"}, n : 0 .. MaxN, failAt : -1 .. MaxN - 1, mode : {"err", "panic"},
           inplace : BOOLEAN, zst : BOOLEAN] :
      /\ r.failAt < r.n
      /\ (r.kind = "box" => r.n = 1)
      /\ (r.zst => ~r.inplace)                     \* is_zst::<T>() forces the fallback
      /\ (r.failAt = -1 => r.mode = "err") }       \* mode is irrelevant without a failure

InitWith(r) ==
  /\ inp = r
  /\ slot = [k \in 0 .. r.n - 1 |-> "T"]
  /\ dropsT = [k \in 0 .. r.n - 1 |-> 0]
  /\ dropsU = [k \in 0 .. r.n - 1 |-> 0]
  /\ buf = "caller" /\ frees = 0 /\ mip = 0 /\ i = 0 /\ pc = "start" /\ bad = FALSE
  /\ log = <<>> /\ held = -1

(* ------------------------------- in-place Vec path ---------------------------------- *)
VecNew ==                                   \* VecMappedInPlace::new: mem::forget(vec)
  /\ pc = "start" /\ inp.kind = "vec" /\ inp.inplace
  /\ buf' = "guard" /\ mip' = 0 /\ i' = 0 /\ pc' = "loop"
  /\ log' = log
  /\ UNCHANGED <<inp, slot, dropsT, dropsU, frees, bad, held>>

VecRead ==                                  \* ptr::read(place); vec.map_in_progress = i
  /\ pc = "loop" /\ i < inp.n /\ inp.kind = "vec" /\ inp.inplace
  /\ bad' = (bad \/ slot[i] # "T")
  /\ slot' = [slot EXCEPT ![i] = "Out"]
  /\ mip' = i /\ pc' = "map"
  /\ log' = log
  /\ UNCHANGED <<inp, dropsT, dropsU, buf, frees, i, held>>

MapOk ==                                    \* map(val) returns Ok: consumes T_i, yields U_i
  /\ pc = "map" /\ inp.failAt # i
  /\ held' = i /\ pc' = "write"
  /\ log' = Append(log, Ev("MapOk", i))
  /\ UNCHANGED <<inp, slot, dropsT, dropsU, buf, frees, mip, i, bad>>

MapFail ==                                  \* map(val) returns Err or panics: T_i dropped by map
  /\ pc = "map" /\ inp.failAt = i
  /\ dropsT' = [dropsT EXCEPT ![i] = @ + 1]
  /\ pc' = IF inp.kind = "vec" THEN (IF inp.inplace THEN "guardU" ELSE "stdcleanup") ELSE "boxfail"
  /\ log' = Append(Append(log, Ev("ElemDropT", i)), Ev("MapFail", i))
  /\ UNCHANGED <<inp, slot, dropsU, buf, frees, mip, i, bad, held>>

VecWrite ==                                 \* ptr::write(place as *mut U, mapped_val)
  /\ pc = "write" /\ inp.kind = "vec" /\ inp.inplace
  /\ slot' = [slot EXCEPT ![i] = "U"] /\ held' = -1
  /\ i' = i + 1 /\ pc' = "loop"
  /\ log' = log
  /\ UNCHANGED <<inp, dropsT, dropsU, buf, frees, mip, bad>>

VecFinish ==                                \* Ok(vec.finish()): the guard is forgotten
  /\ pc = "loop" /\ i = inp.n /\ inp.kind = "vec" /\ inp.inplace
  /\ buf' = "result" /\ pc' = "result"
  /\ log' = log
  /\ UNCHANGED <<inp, slot, dropsT, dropsU, frees, mip, i, bad, held>>

(* The guard's Drop impl: first loop, second loop, then the buffer. `i` is reused as the   *)
(* loop counter of the current loop.                                                       *)
GuardBegin ==
  /\ pc = "guardU"
  /\ pc' = "guardU1" /\ i' = 0
  /\ log' = log
  /\ UNCHANGED <<inp, slot, dropsT, dropsU, buf, frees, mip, bad, held>>

GuardDropU ==
  /\ pc = "guardU1" /\ \E k \in GuardURange : k >= i
  /\ LET k == CHOOSE k \in GuardURange : k >= i /\ \A j \in GuardURange : j >= i => k <= j IN
       /\ bad' = (bad \/ slot[k] # "U")
       /\ dropsU' = [dropsU EXCEPT ![k] = @ + 1]
       /\ slot' = [slot EXCEPT ![k] = "Dead"]
       /\ i' = k + 1
       /\ log' = Append(log, Ev("ElemDropU", k))
  /\ UNCHANGED <<inp, dropsT, buf, frees, mip, pc, held>>

GuardSwitch ==
  /\ pc = "guardU1" /\ ~ \E k \in GuardURange : k >= i
  /\ pc' = "guardT1" /\ i' = 0
  /\ UNCHANGED <<inp, slot, dropsT, dropsU, buf, frees, mip, bad, log, held>>

GuardDropT ==
  /\ pc = "guardT1" /\ \E k \in GuardTRange : k >= i
  /\ LET k == CHOOSE k \in GuardTRange : k >= i /\ \A j \in GuardTRange : j >= i => k <= j IN
       /\ bad' = (bad \/ slot[k] # "T")
       /\ dropsT' = [dropsT EXCEPT ![k] = @ + 1]
       /\ slot' = [slot EXCEPT ![k] = "Dead"]
       /\ i' = k + 1
       /\ log' = Append(log, Ev("ElemDropT", k))
  /\ UNCHANGED <<inp, dropsU, buf, frees, mip, pc, held>>

GuardDealloc ==                             \* Vec::from_raw_parts(ptr, 0, cap) dropped
  /\ pc = "guardT1" /\ ~ \E k \in GuardTRange : k >= i
  /\ bad' = (bad \/ buf # "guard")
  /\ buf' = "freed" /\ frees' = frees + 1 /\ pc' = "failed"
  /\ log' = log
  /\ UNCHANGED <<inp, slot, dropsT, dropsU, mip, i, held>>

(* ------------------- fallback Vec path: vec.into_iter().map(map).collect() ----------- *)
(* std decides the order of clean-up; the specification leaves it open.                  *)
StdBegin ==
  /\ pc = "start" /\ inp.kind = "vec" /\ ~inp.inplace
  /\ buf' = "iter" /\ i' = 0 /\ pc' = "loop"
  /\ UNCHANGED <<inp, slot, dropsT, dropsU, frees, mip, bad, log, held>>

StdRead ==                                  \* IntoIter::next moves the value out
  /\ pc = "loop" /\ i < inp.n /\ inp.kind = "vec" /\ ~inp.inplace
  /\ bad' = (bad \/ slot[i] # "T")
  /\ slot' = [slot EXCEPT ![i] = "Out"] /\ pc' = "map"
  /\ UNCHANGED <<inp, dropsT, dropsU, buf, frees, mip, i, log, held>>

StdWrite ==                                 \* the mapped value is pushed to the output vector
  /\ pc = "write" /\ inp.kind = "vec" /\ ~inp.inplace
  /\ slot' = [slot EXCEPT ![i] = "U"] /\ held' = -1
  /\ i' = i + 1 /\ pc' = "loop"
  /\ UNCHANGED <<inp, dropsT, dropsU, buf, frees, mip, bad, log>>

StdFinish ==
  /\ pc = "loop" /\ i = inp.n /\ inp.kind = "vec" /\ ~inp.inplace
  /\ buf' = "result" /\ pc' = "result"
  /\ UNCHANGED <<inp, slot, dropsT, dropsU, frees, mip, i, bad, log, held>>

StdCleanup(k) ==                            \* some live value is dropped by std
  /\ pc = "stdcleanup" /\ slot[k] \in {"T", "U"}
  /\ IF slot[k] = "T" THEN /\ dropsT' = [dropsT EXCEPT ![k] = @ + 1] /\ UNCHANGED dropsU
                            /\ log' = Append(log, Ev("ElemDropT", k))
                      ELSE /\ dropsU' = [dropsU EXCEPT ![k] = @ + 1] /\ UNCHANGED dropsT
                            /\ log' = Append(log, Ev("ElemDropU", k))
  /\ slot' = [slot EXCEPT ![k] = "Dead"]
  /\ UNCHANGED <<inp, buf, frees, mip, i, pc, bad, held>>

StdCleanupEnd ==
  /\ pc = "stdcleanup" /\ \A k \in Idx : slot[k] \notin {"T", "U"}
  /\ buf' = "freed" /\ frees' = frees + 1 /\ pc' = "failed"
  /\ UNCHANGED <<inp, slot, dropsT, dropsU, mip, i, bad, log, held>>

(* ------------------------------------ Box ------------------------------------------- *)
BoxBegin ==                                 \* in place: ptr::read(raw); fallback: `*b`
  /\ pc = "start" /\ inp.kind = "box"
  /\ bad' = (bad \/ slot[0] # "T")
  /\ slot' = [slot EXCEPT ![0] = "Out"] /\ i' = 0 /\ mip' = 0 /\ pc' = "map"
  /\ buf' = "guard"                          \* the storage (old box, or std's replacement) is owned locally
  /\ log' = IF inp.inplace THEN log ELSE log
  /\ UNCHANGED <<inp, dropsT, dropsU, frees, held>>

BoxWrite ==
  /\ pc = "write" /\ inp.kind = "box"
  /\ slot' = [slot EXCEPT ![0] = "U"] /\ held' = -1 /\ buf' = "result" /\ pc' = "result" /\ i' = 1
  /\ log' = IF inp.inplace THEN log ELSE log
  /\ UNCHANGED <<inp, dropsT, dropsU, frees, mip, bad>>

BoxFail ==                                  \* Box<MaybeUninit<U>> dropped: frees, drops nothing
  /\ pc = "boxfail"
  /\ bad' = (bad \/ buf # "guard") /\ frees' = frees + 1 /\ buf' = "freed"
  /\ pc' = "failed"
  /\ UNCHANGED <<inp, slot, dropsT, dropsU, mip, i, log, held>>

(* -------- the caller finally drops the returned Vec<U> / Box<U> (success only) -------- *)
ResultDrop(k) ==
  /\ pc = "result" /\ slot[k] = "U"
  /\ dropsU' = [dropsU EXCEPT ![k] = @ + 1]
  /\ slot' = [slot EXCEPT ![k] = "Dead"]
  /\ log' = Append(log, Ev("ElemDropU", k))
  /\ UNCHANGED <<inp, dropsT, buf, frees, mip, i, pc, bad, held>>

ResultFree ==
  /\ pc = "result" /\ \A k \in Idx : slot[k] # "U"
  /\ bad' = (bad \/ buf # "result")
  /\ buf' = "freed" /\ frees' = frees + 1 /\ pc' = "succeeded"
  /\ UNCHANGED <<inp, slot, dropsT, dropsU, mip, i, log, held>>

Done == pc \in {"failed", "succeeded"}

Next ==
  \/ VecNew \/ VecRead \/ MapOk \/ MapFail \/ VecWrite \/ VecFinish
  \/ GuardBegin \/ GuardDropU \/ GuardSwitch \/ GuardDropT \/ GuardDealloc
  \/ StdBegin \/ StdRead \/ StdWrite \/ StdFinish \/ (\E k \in Idx : StdCleanup(k)) \/ StdCleanupEnd
  \/ BoxBegin \/ BoxWrite \/ BoxFail
  \/ (\E k \in Idx : ResultDrop(k)) \/ ResultFree
  \/ (Done /\ UNCHANGED vars)

(* In the fallback path the loop reads through std's IntoIter: same abstract step. *)
(* ---------------------------------- properties -------------------------------------- *)
NoUB          == ~bad
NoDoubleDrop  == \A k \in Idx : dropsT[k] <= 1 /\ dropsU[k] <= 1
NoDoubleFree  == frees <= 1
(* nothing is dropped before the outcome is known to be a failure / the result is handed back *)
SuccessDropsNothingEarly == pc \in {"start", "loop", "map", "write"} => \A k \in Idx : dropsU[k] = 0
FailedExact   == pc = "failed" =>
                    /\ \A k \in Idx : (dropsT[k] = 1 /\ dropsU[k] = 0) \/ (dropsT[k] = 0 /\ dropsU[k] = 1 /\ k < inp.failAt)
                    /\ \A k \in Idx : k >= inp.failAt => dropsT[k] = 1
                    /\ frees = 1
SucceededExact == pc = "succeeded" =>
                    /\ \A k \in Idx : dropsT[k] = 0 /\ dropsU[k] = 1
                    /\ frees = 1
ResultIntact  == pc = "result" /\ (\A k \in Idx : dropsU[k] = 0) =>
                    \A k \in Idx : slot[k] = "U" /\ dropsU[k] = 0 /\ dropsT[k] = 0
==============================================================================
