------------------------------- MODULE SLG -------------------------------
(***************************************************************************)
(* The on-demand SLG engine of chalk-engine, as implemented.               *)
(*                                                                         *)
(* One action per hook event of /repo/chalk-engine (see DESIGN.md 7.1);    *)
(* every action is  Step(e)  for an event record  e .  The *control* of    *)
(* the engine (queue discipline, stack discipline, clock and minimums,     *)
(* answer modes, completion, what is enqueued where, what is dropped) is   *)
(* computed by this module from the state alone; the *logical content* of  *)
(* a resolution step (initial strands of a table, result of unifying an    *)
(* answer into a strand, answer keys) is carried by the event.  Two users: *)
(*   - SLGGround computes the event from a propositional program, so that  *)
(*     Next == Step(GroundEvent) is a closed, deterministic model that TLC *)
(*     explores for every program/history/interrupt/panic schedule;        *)
(*   - SLGTrace takes the event from a recorded trace of the real engine.  *)
(*                                                                         *)
(* Code mirrored: chalk-engine/src/{logic,forest,table,stack}.rs,          *)
(* slg/aggregate.rs (make_solution), solve.rs (solve_multiple).            *)
(***************************************************************************)
EXTENDS Naturals, Sequences, FiniteSets, TLC

INF == 1000000000          \* rendering of TimeStamp::MAX in events

VARIABLES
  tables,   \* Seq of [key, g, co, flo, answers, strands, mode, refined]   (Tables/Table)
  clock,    \* Forest.clock
  stack,    \* Seq of [table, clock, minPos, minNeg, active]       (Stack/StackEntry)
  pc,       \* control point inside ensure_root_answer / root_answer
  held,     \* <<strand>> while ensure_root_answer owns a strand in a local, else <<>>
  exitRes,  \* result with which the current root_answer call is about to return
  stT, stA, \* ForestSolver.table / ForestSolver.answer of the current answer stream
  lastRes,  \* [res, amb] of the last finished root_answer call
  op,       \* the public call in progress: [kind, phase, amb1, n] or [kind |-> "none"]
  lost      \* history: strands lost by a panic while held (named deviation, C12)

slgvars == <<tables, clock, stack, pc, held, exitRes, stT, stA, lastRes, op, lost>>

----------------------------------------------------------------------------
(* Small helpers *)

Min(a, b) == IF a < b THEN a ELSE b
Top == stack[Len(stack)]
TopT == Top.table                                  \* 1-based table index
SetTop(stk, r) == [stk EXCEPT ![Len(stk)] = r]
Pop(stk) == SubSeq(stk, 1, Len(stk) - 1)
RemoveAt(s, i) == SubSeq(s, 1, i - 1) \o SubSeq(s, i + 1, Len(s))
Enq(tbls, t, s) == [tbls EXCEPT ![t].strands = Append(@, s)]
AnswerKeys(t) == {tables[t].answers[i].key : i \in 1..Len(tables[t].answers)}
TableKeys == {tables[i].key : i \in 1..Len(tables)}
TableOfKey(k) == CHOOSE i \in 1..Len(tables) : tables[i].key = k

NoOp == [kind |-> "none", phase |-> "none", amb1 |-> FALSE, n |-> 0]

(* Stack::is_active: first stack index whose table is t, or 0 *)
ActiveDepth(t) ==
  IF \E d \in 1..Len(stack) : stack[d].table = t
  THEN CHOOSE d \in 1..Len(stack) : stack[d].table = t /\ \A d2 \in 1..(d-1) : stack[d2].table # t
  ELSE 0

(* top_of_stack_is_coinductive_from *)
CoFrom(d) == \A i \in d..Len(stack) : tables[stack[i].table].co

(* unwind_stack: pop every entry; each remaining caller's active strand goes to the
   back of its table's queue.  Panics (unwrap) if a caller has no active strand. *)
RECURSIVE UnwindTables(_, _)
UnwindTables(stk, tbls) ==
  IF Len(stk) <= 1 THEN tbls
  ELSE LET s2 == Pop(stk)
           c  == s2[Len(s2)]
       IN  UnwindTables(SetTop(s2, [c EXCEPT !.active = <<>>]), Enq(tbls, c.table, c.active[1]))
UnwindOK(stk) == \A i \in 1..(Len(stk) - 1) : stk[i].active # <<>>

(* dequeue_next_strand_that: first eligible strand; the ones before it rotate to the back *)
Eligible(s, clk, mode) == s.last < clk /\ (mode = "Complete" => ~s.amb)
FirstEligible(t, clk) ==
  LET q == tables[t].strands
      m == tables[t].mode
  IN IF \E i \in 1..Len(q) : Eligible(q[i], clk, m)
     THEN CHOOSE i \in 1..Len(q) : Eligible(q[i], clk, m) /\ \A j \in 1..(i-1) : ~Eligible(q[j], clk, m)
     ELSE 0
AfterDequeue(q, i) == SubSeq(q, i + 1, Len(q)) \o SubSeq(q, 1, i - 1)

(* clear_strands_after_cycle: depth-first; returns <<tables', visit list>> *)
RECURSIVE ClearRec(_, _, _)
ClearRec(strs, tbls, visited) ==
  IF strs = <<>> THEN <<tbls, visited>>
  ELSE LET s   == Head(strs)
           st  == s.selT + 1
           sub == tbls[st].strands
           r1  == ClearRec(sub, [tbls EXCEPT ![st].strands = <<>>], Append(visited, s.selT))
       IN  ClearRec(Tail(strs), r1[1], r1[2])
RECURSIVE ClearOK(_, _, _)
ClearOK(strs, tbls, fuel) ==   \* every strand reached has a selected subgoal (else the code panics)
  IF strs = <<>> THEN TRUE
  ELSE IF fuel = 0 \/ Head(strs).sel = 0 THEN FALSE
  ELSE LET st  == Head(strs).selT + 1
           tb1 == [tbls EXCEPT ![st].strands = <<>>]
       IN  /\ ClearOK(tbls[st].strands, tb1, fuel - 1)
           /\ ClearOK(Tail(strs), ClearRec(tbls[st].strands, tb1, <<>>)[1], fuel - 1)

(* flounder_subgoal *)
FlounderAt(s, i) ==
  [s EXCEPT !.lits = RemoveAt(@, i),
            !.flo  = Append(@, [lit |-> s.lits[i], t |-> s.atime])]

Deselect(s) == [s EXCEPT !.sel = 0, !.selT = 0, !.selA = 0]

(* the shape of a strand that only differs by re-canonicalisation: everything that does
   not depend on variable numbering is equal *)
Shape(s) == [nl |-> Len(s.lits), signs |-> [i \in 1..Len(s.lits) |-> s.lits[i].pos],
             nf |-> Len(s.flo), nd |-> Len(s.del), sel |-> s.sel, selT |-> s.selT,
             selA |-> s.selA, last |-> s.last, amb |-> s.amb, atime |-> s.atime, ref |-> s.ref]

(* create_refinement_strand: the delayed subgoals of an answer become the subgoals of a strand
   that also remembers them (del) as goals it has already taken into account *)
IsRefinementOf(n, a) ==
  /\ Len(n.lits) = Len(a.del) /\ Len(n.del) = Len(a.del)
  /\ \A i \in 1..Len(n.lits) : n.lits[i].pos
  /\ n.flo = <<>> /\ n.sel = 0 /\ n.last = 0 /\ n.atime = 0
  /\ n.amb = a.amb /\ n.ref
NoDup(seq) == \A i, j \in 1..Len(seq) : i # j => seq[i] # seq[j]

----------------------------------------------------------------------------
(* Exits of ensure_root_answer.  `Exit(res, stk, tbls)`: the call returns `res`; if the
   stack is not empty `Drop for SolveState` still has to run (event DropState). *)
ExitWith(res, stk, tbls) ==
  /\ exitRes' = res
  /\ stack' = stk
  /\ tables' = tbls
  /\ held' = <<>>
  /\ pc' = "exit"

ExitUnwound(res, stk, tbls) ==   \* the branch called unwind_stack itself
  /\ UnwindOK(stk)
  /\ ExitWith(res, <<>>, UnwindTables(stk, tbls))

----------------------------------------------------------------------------
(* Public-call level: Forest::iter_answers, ForestSolver::{peek,next}_answer,
   make_solution, solve_multiple *)

\* make_solution / solve_multiple move between some of their phases without an event of
\* their own; Ph is the phase the call is really in.
Ph ==
  CASE op.phase = "firstdone" /\ lastRes.res \in {"Answer", "Floundered"} -> "second"
    [] op.phase = "second" /\ lastRes.res \in {"Answer", "Floundered"} -> "loop"
    [] op.phase = "second" /\ lastRes.res = "NoMoreSolutions" /\ op.amb1 -> "loop"
    [] op.phase = "multidone" /\ lastRes.res = "Answer" -> "multipeek"
    [] OTHER -> op.phase

\* event Op{kind}: a public solver call starts (emitted by the harness)
DoOp(e) ==
  /\ pc = "idle" /\ op.kind = "none"
  /\ e.kind \in {"solve", "limited", "multi"}
  /\ op' = [kind |-> e.kind, phase |-> "stream", amb1 |-> FALSE, n |-> 0]
  /\ UNCHANGED <<tables, clock, stack, pc, held, exitRes, stT, stA, lastRes, lost>>

\* event TableNew: Tables::insert of a freshly built table
DoTableNew(e) ==
  /\ \/ pc = "idle" /\ op.phase = "stream"
     \/ pc = "select" /\ held[1].sel = 0 /\ held[1].lits # <<>>
  /\ e.table = Len(tables)
  /\ e.key \notin TableKeys                       \* one table per u-canonical goal
  /\ pc = "select" => ~e.big                      \* a subgoal beyond the size limit flounders instead (FlounderLit): C09
  /\ e.flo => e.strands = <<>>
  /\ \A i \in 1..Len(e.strands) :
        e.strands[i].sel = 0 /\ e.strands[i].last = 0 /\ e.strands[i].flo = <<>>
        /\ e.strands[i].del = <<>> /\ e.strands[i].atime = 0 /\ ~e.strands[i].ref
  /\ tables' = Append(tables, [key |-> e.key, g |-> e.g, co |-> e.co, flo |-> e.flo,
                               answers |-> <<>>, strands |-> e.strands, mode |-> "Complete",
                               refined |-> {}])
  /\ pc' = IF pc = "idle" THEN "idle" ELSE "selectnew"
  /\ op' = IF pc = "idle" THEN [op EXCEPT !.phase = "streamnew"] ELSE op
  /\ UNCHANGED <<clock, stack, held, exitRes, stT, stA, lastRes, lost>>

\* event Stream{table}: iter_answers created the ForestSolver
DoStream(e) ==
  /\ pc = "idle" /\ op.phase \in {"stream", "streamnew"}
  /\ e.table + 1 \in 1..Len(tables)
  /\ op.phase = "streamnew" => e.table + 1 = Len(tables)
  /\ stT' = e.table + 1 /\ stA' = 0
  /\ op' = [op EXCEPT !.phase = IF op.kind = "multi" THEN "multinext" ELSE "first"]
  /\ lastRes' = [res |-> "none", amb |-> FALSE]
  /\ UNCHANGED <<tables, clock, stack, pc, held, exitRes, lost>>

\* event RootBegin{table, ans}: ForestSolver::peek_answer calls Forest::root_answer
DoRootBegin(e) ==
  /\ pc = "idle" /\ Ph \in {"first", "second", "loop", "loopnext", "multinext", "multipeek", "multicb"}
  \* either a new peek_answer call starts, or the loop inside peek_answer goes round again
  /\ \/ Ph # op.phase \/ op.phase \in {"loop", "multicb"}
     \/ lastRes.res \in {"none", "QuantumExceeded", "InvalidAnswer"}
  /\ e.table + 1 = stT /\ e.ans = stA
  /\ op' = [op EXCEPT !.phase = CASE Ph = "loop" -> "loopnext"
                                  [] Ph = "multicb" -> "multinext"
                                  [] OTHER -> Ph]
  /\ lastRes' = [res |-> "pending", amb |-> FALSE]
  /\ IF tables[stT].flo THEN
        /\ pc' = "exit" /\ exitRes' = "Floundered"
        /\ UNCHANGED <<tables, clock, stack, held>>
     ELSE IF stA < Len(tables[stT].answers) THEN
        /\ pc' = "exit" /\ exitRes' = "Answer"
        /\ UNCHANGED <<tables, clock, stack, held>>
     ELSE
        /\ stA = Len(tables[stT].answers)         \* the assert_eq! in ensure_root_answer
        /\ pc' = "push0"
        /\ UNCHANGED <<tables, clock, stack, held, exitRes>>
  /\ UNCHANGED <<stT, stA, lost>>

\* event Push{table, clock}: Stack::push (root table or selected subgoal's table)
DoPush(e) ==
  /\ e.clock = clock + 1
  /\ clock' = clock + 1
  /\ \/ /\ pc = "push0"
        /\ e.table + 1 = stT
        /\ stack = <<>>
        /\ stack' = <<[table |-> stT, clock |-> clock + 1, minPos |-> INF, minNeg |-> INF,
                       active |-> <<>>]>>
        /\ held' = held
     \/ /\ pc = "selected"
        /\ LET s == held[1]
               t == s.selT + 1
           IN /\ e.table = s.selT
              /\ s.selA = Len(tables[t].answers)   \* no tabled answer: next index requested
              /\ ActiveDepth(t) = 0                \* table not active: no cycle
              /\ stack' = Append(SetTop(stack, [Top EXCEPT !.active = <<s>>]),
                                 [table |-> t, clock |-> clock + 1, minPos |-> INF,
                                  minNeg |-> INF, active |-> <<>>])
        /\ held' = <<>>
  /\ pc' = "loop"
  /\ UNCHANGED <<tables, exitRes, stT, stA, lastRes, op, lost>>

\* event Take{table, src, strand}: top of the loop in ensure_root_answer
DoTake(e) ==
  /\ pc = "loop" /\ held = <<>>
  /\ e.table + 1 = TopT
  /\ LET i == FirstEligible(TopT, Top.clock) IN
     IF Top.active # <<>> THEN
        /\ e.src = "active" /\ e.strand = Top.active
        /\ stack' = SetTop(stack, [Top EXCEPT !.active = <<>>])
        /\ tables' = tables
     ELSE IF i # 0 THEN
        /\ e.src = "queue" /\ e.strand = <<tables[TopT].strands[i]>>
        /\ tables' = [tables EXCEPT ![TopT].strands = AfterDequeue(@, i)]
        /\ stack' = stack
     ELSE
        /\ e.src = "none" /\ e.strand = <<>>
        /\ UNCHANGED <<tables, stack>>
  /\ IF e.strand = <<>> THEN pc' = "nostrands" /\ held' = <<>>
     ELSE LET s == [e.strand[1] EXCEPT !.last = Top.clock] IN
          /\ held' = <<s>>
          /\ pc' = IF s.sel # 0 /\ ~tables[s.selT + 1].flo THEN "selected" ELSE "select"
  /\ UNCHANGED <<clock, exitRes, stT, stA, lastRes, op, lost>>

\* event NotSelected: select_subgoal found neither subgoals nor floundered subgoals
DoNotSelected(e) ==
  /\ pc = "select" /\ held[1].sel = 0 /\ held[1].lits = <<>> /\ held[1].flo = <<>>
  /\ pc' = "answer"
  /\ UNCHANGED <<tables, clock, stack, held, exitRes, stT, stA, lastRes, op, lost>>

\* event Reconsider{strand}: reconsider_floundered_subgoals
DoReconsider(e) ==
  /\ pc = "select" /\ held[1].sel = 0 /\ held[1].lits = <<>> /\ held[1].flo # <<>>
  /\ LET s == held[1]  n == e.strand IN
       /\ Len(n.lits) + Len(n.flo) = Len(s.flo)
       /\ \A i \in 1..Len(n.flo) : ~(n.flo[i].t < s.atime)     \* kept: not yet reconsiderable
       /\ Cardinality({i \in 1..Len(s.flo) : s.flo[i].t < s.atime}) = Len(n.lits)
       /\ [n EXCEPT !.lits = <<>>, !.flo = <<>>] = [s EXCEPT !.lits = <<>>, !.flo = <<>>]
       /\ held' = <<n>>
       /\ pc' = IF n.lits = <<>> THEN "allflo" ELSE "select"
  /\ UNCHANGED <<tables, clock, stack, exitRes, stT, stA, lastRes, op, lost>>

\* event AllFloundered: every subgoal floundered; the strand can only be ambiguous
DoAllFloundered(e) ==
  /\ pc = "allflo"
  /\ held' = <<[held[1] EXCEPT !.amb = TRUE]>>
  /\ pc' = "answer"
  /\ UNCHANGED <<tables, clock, stack, exitRes, stT, stA, lastRes, op, lost>>

\* event Select{idx, table}: get_or_create_table_for_subgoal returned a table
DoSelect(e) ==
  /\ pc \in {"select", "selectnew"} /\ held[1].sel = 0 /\ held[1].lits # <<>>
  /\ e.idx = Len(held[1].lits)                    \* next_subgoal_index: always the last
  /\ e.table + 1 \in 1..Len(tables)
  /\ pc = "selectnew" => e.table + 1 = Len(tables)
  /\ held' = <<[held[1] EXCEPT !.sel = e.idx, !.selT = e.table, !.selA = 0]>>
  /\ pc' = IF tables[e.table + 1].flo THEN "select" ELSE "selected"
  /\ UNCHANGED <<tables, clock, stack, exitRes, stT, stA, lastRes, op, lost>>

\* event FlounderLit{idx}: the literal could not be abstracted (too large / non-ground negative)
DoFlounderLit(e) ==
  /\ pc = "select" /\ held[1].sel = 0 /\ held[1].lits # <<>>
  /\ e.idx = Len(held[1].lits)
  /\ held' = <<FlounderAt(held[1], e.idx)>>
  /\ UNCHANGED <<tables, clock, stack, pc, exitRes, stT, stA, lastRes, op, lost>>

\* event SubFloundered{pos}: propagate_floundered_subgoal
DoSubFloundered(e) ==
  /\ pc = "select" /\ held[1].sel # 0 /\ tables[held[1].selT + 1].flo
  /\ LET s == held[1] IN
     /\ e.pos = s.lits[s.sel].pos
     /\ IF e.pos
        THEN held' = <<Deselect(FlounderAt(s, s.sel))>> /\ pc' = "select"
        ELSE held' = <<Deselect(s)>> /\ pc' = "answer"       \* strand leads nowhere
  /\ UNCHANGED <<tables, clock, stack, exitRes, stT, stA, lastRes, op, lost>>

\* event Merge{outcome, next, strand}: merge_answer_into_strand (a tabled answer exists)
DoMerge(e) ==
  /\ pc = "selected"
  /\ LET s   == held[1]
         t   == s.selT + 1
         lit == s.lits[s.sel]
     IN
     /\ s.selA < Len(tables[t].answers)
     /\ LET ans == tables[t].answers[s.selA + 1]
            complete == tables[TopT].mode = "Complete"
        IN
        IF complete /\ ans.amb THEN
           \* ambiguous answer not wanted yet: treat the subgoal as floundered
           /\ e.outcome = "ambflounder" /\ e.next = <<>>
           /\ Len(e.strand) = 1
           /\ Shape(e.strand[1]) = Shape(Deselect(FlounderAt(s, s.sel)))
           /\ stack' = SetTop(stack, [Top EXCEPT !.active = e.strand])
           /\ tables' = tables /\ held' = <<>> /\ pc' = "loop" /\ exitRes' = exitRes
        ELSE
           \* the next-answer strand: positive literal and non-trivial answer substitution
           /\ (e.next # <<>>) = (lit.pos /\ (~ans.trivsub \/ ans.del # <<>>))   \* a conditional answer may be followed by a better one
           /\ e.next # <<>> => Shape(e.next[1]) = Shape([s EXCEPT !.selA = s.selA + 1])
           /\ LET tb1 == IF e.next # <<>> THEN Enq(tables, TopT, e.next[1]) ELSE tables IN
              IF lit.pos THEN
                 /\ e.outcome \in {"ok", "unifyfail"}
                 /\ IF e.outcome = "ok" THEN
                       /\ Len(e.strand) = 1
                       /\ LET n == e.strand[1] IN
                            /\ n.sel = 0 /\ n.last = s.last
                            /\ n.amb = (s.amb \/ ans.amb)
                            /\ n.atime = s.atime + 1
                            /\ Len(n.flo) = Len(s.flo)
                            /\ n.ref = s.ref
                            \* each delayed subgoal is kept once
                            /\ Len(n.del) >= Len(s.del) /\ Len(n.del) <= Len(s.del) + Len(ans.del)
                            \* a refinement strand evaluates the delayed subgoals it has not met before
                            /\ Len(n.lits) >= Len(s.lits) - 1 + (IF s.ref THEN Len(n.del) - Len(s.del) ELSE 0)
                                                                \* (unification may add subgoals)
                       /\ stack' = SetTop(stack, [Top EXCEPT !.active = e.strand])
                       /\ tables' = tb1 /\ held' = <<>> /\ pc' = "loop" /\ exitRes' = exitRes
                    ELSE
                       /\ e.strand = <<>>
                       /\ ExitUnwound("QuantumExceeded", stack, tb1)
              ELSE
                 /\ ans.del = <<>>                 \* else: NegSkip
                 /\ IF ~ans.amb THEN
                       /\ e.outcome = "negfail" /\ e.strand = <<>>
                       /\ ExitUnwound("QuantumExceeded", stack, tb1)
                    ELSE
                       /\ e.outcome = "negamb" /\ Len(e.strand) = 1
                       /\ Shape(e.strand[1]) =
                            Shape([Deselect(s) EXCEPT !.lits = RemoveAt(s.lits, s.sel), !.amb = TRUE])
                       /\ stack' = SetTop(stack, [Top EXCEPT !.active = e.strand])
                       /\ tables' = tb1 /\ held' = <<>> /\ pc' = "loop" /\ exitRes' = exitRes
  /\ UNCHANGED <<clock, stT, stA, lastRes, op, lost>>

\* event CycleCo{strand}: on_coinductive_subgoal - the subgoal is delayed
DoCycleCo(e) ==
  /\ pc = "selected"
  /\ LET s == held[1]
         t == s.selT + 1
         d == ActiveDepth(t)
     IN
     /\ s.selA = Len(tables[t].answers)
     /\ d # 0 /\ CoFrom(d)
     /\ s.lits[s.sel].pos                          \* negative: the code panics
     /\ e.strand = [Deselect(s) EXCEPT !.lits = RemoveAt(s.lits, s.sel),
                                       !.del = IF \E i \in 1..Len(s.del) : s.del[i] = s.lits[s.sel].g
                                               THEN s.del ELSE Append(s.del, s.lits[s.sel].g)]
     /\ stack' = SetTop(stack, [Top EXCEPT !.active = <<e.strand>>])
  /\ held' = <<>> /\ pc' = "loop"
  /\ UNCHANGED <<tables, clock, exitRes, stT, stA, lastRes, op, lost>>

\* event NegSkip{refine}: the selected literal is negative and the tabled answer it would look at
\* still has delayed subgoals: have them evaluated by a refinement strand on that table (once per
\* answer) and look at the table's next answer instead
DoNegSkip(e) ==
  /\ pc = "selected"
  /\ LET s == held[1]
         t == s.selT + 1
     IN
     /\ ~s.lits[s.sel].pos
     /\ s.selA < Len(tables[t].answers)
     /\ tables[t].answers[s.selA + 1].del # <<>>
     /\ IF s.selA \in tables[t].refined THEN e.refine = <<>> /\ tables' = tables
        ELSE /\ Len(e.refine) = 1 /\ IsRefinementOf(e.refine[1], tables[t].answers[s.selA + 1])
             /\ tables' = [Enq(tables, t, e.refine[1]) EXCEPT ![t].refined = @ \cup {s.selA}]
     /\ stack' = SetTop(stack, [Top EXCEPT !.active = <<[s EXCEPT !.selA = s.selA + 1]>>])
  /\ held' = <<>> /\ pc' = "loop"
  /\ UNCHANGED <<clock, exitRes, stT, stA, lastRes, op, lost>>

\* event CyclePos{minPos, minNeg}: on_positive_cycle
DoCyclePos(e) ==
  /\ pc = "selected"
  /\ LET s == held[1]
         t == s.selT + 1
         d == ActiveDepth(t)
     IN
     /\ s.selA = Len(tables[t].answers)
     /\ d # 0 /\ ~CoFrom(d)
     /\ LET mp == IF s.lits[s.sel].pos THEN Min(Top.minPos, stack[d].clock)
                  ELSE Min(Top.minPos, Top.clock)
            mn == IF s.lits[s.sel].pos THEN Top.minNeg
                  ELSE Min(Top.minNeg, stack[d].clock)
        IN /\ e.minPos = mp /\ e.minNeg = mn
           /\ stack' = SetTop(stack, [Top EXCEPT !.minPos = mp, !.minNeg = mn])
     /\ tables' = Enq(tables, TopT, s)            \* back of the queue, selection kept
  /\ held' = <<>> /\ pc' = "loop"
  /\ UNCHANGED <<clock, exitRes, stT, stA, lastRes, op, lost>>

\* event Requeue: an ambiguous strand is finished but the table is in Complete mode
DoRequeue(e) ==
  /\ pc = "answer"
  /\ tables[TopT].mode = "Complete" /\ held[1].amb
  /\ ExitWith("QuantumExceeded", stack, Enq(tables, TopT, held[1]))
  /\ UNCHANGED <<clock, stT, stA, lastRes, op, lost>>

AnswerWanted == pc = "answer" /\ ~(tables[TopT].mode = "Complete" /\ held[1].amb)

\* event AnswerTooLarge: the answer needs truncation: the whole table flounders
DoAnswerTooLarge(e) ==
  /\ AnswerWanted /\ held[1].lits = <<>>
  /\ ExitUnwound("QuantumExceeded", stack,
                 [tables EXCEPT ![TopT].flo = TRUE, ![TopT].strands = <<>>, ![TopT].answers = <<>>,
                                ![TopT].refined = {}])
  /\ UNCHANGED <<clock, stT, stA, lastRes, op, lost>>

\* event AnswerDup{key}: push_answer found the answer in answers_hash
DoAnswerDup(e) ==
  /\ AnswerWanted /\ held[1].lits = <<>>
  /\ e.key \in AnswerKeys(TopT)
  /\ \A i \in 1..Len(tables[TopT].answers) :      \* else push_answer panics
        tables[TopT].answers[i].key = e.key => ~(tables[TopT].answers[i].amb /\ ~held[1].amb)
  /\ ExitUnwound("QuantumExceeded", stack, tables)
  /\ UNCHANGED <<clock, stT, stA, lastRes, op, lost>>

\* event AnswerNew{idx, amb, trivial, trivsub, key, del}
DoAnswerNew(e) ==
  /\ AnswerWanted /\ held[1].lits = <<>>
  /\ (held[1].flo # <<>>) => held[1].amb          \* assert!(!floundered || ambiguous)
  /\ ~tables[TopT].flo
  /\ e.key \notin AnswerKeys(TopT)
  /\ ~e.big                                       \* an answer beyond the size limit flounders the table instead (AnswerTooLarge): C09
  /\ e.idx = Len(tables[TopT].answers)
  /\ e.amb = held[1].amb
  /\ e.trivial => e.trivsub /\ e.del = <<>>       \* an answer with delayed subgoals is not trivial
  /\ Len(e.del) <= Len(held[1].del)               \* self-cycle delayed subgoals are dropped
  /\ held[1].ref => e.del = <<>>                  \* a refinement strand has evaluated them all
  /\ tables' = [tables EXCEPT
        ![TopT].answers = Append(@, [key |-> e.key, amb |-> e.amb, del |-> e.del,
                                     trivsub |-> e.trivsub]),
        ![TopT].strands = IF ~e.amb /\ e.trivial THEN <<>> ELSE @]    \* green cut
  /\ held' = <<>> /\ pc' = "answered"
  /\ UNCHANGED <<clock, stack, exitRes, stT, stA, lastRes, op, lost>>

\* event PopToCaller: the table that produced the answer was a subgoal
DoPopToCaller(e) ==
  /\ pc = "answered" /\ Len(stack) > 1
  /\ stack[Len(stack) - 1].active # <<>>
  /\ stack' = Pop(stack)
  /\ pc' = "loop"
  /\ UNCHANGED <<tables, clock, held, exitRes, stT, stA, lastRes, op, lost>>

LastAnswer(t) == tables[t].answers[Len(tables[t].answers)]

\* event Refine{strand}: the root answer has delayed subgoals: enqueue a refinement strand
DoRefine(e) ==
  /\ pc = "answered" /\ Len(stack) = 1
  /\ LastAnswer(TopT).del # <<>>
  /\ LET n == e.strand IN
       /\ IsRefinementOf(n, LastAnswer(TopT))
       /\ tables' = [Enq(tables, TopT, n) EXCEPT ![TopT].refined = @ \cup {Len(tables[TopT].answers) - 1}]
  /\ pc' = "refined"
  /\ UNCHANGED <<clock, stack, held, exitRes, stT, stA, lastRes, op, lost>>

\* event RootAnswer: the root table produced the requested answer
DoRootAnswer(e) ==
  /\ \/ pc = "answered" /\ Len(stack) = 1 /\ LastAnswer(TopT).del = <<>>
     \/ pc = "refined"
  /\ ExitWith("Answer", <<>>, tables)
  /\ UNCHANGED <<clock, stT, stA, lastRes, op, lost>>

\* events of on_no_strands_left
DoFailRoot(e) ==
  /\ pc = "nostrands" /\ tables[TopT].strands = <<>> /\ Len(stack) = 1
  /\ ExitWith("NoMoreSolutions", <<>>, tables)
  /\ UNCHANGED <<clock, stT, stA, lastRes, op, lost>>

CallerLitPos(stk) ==   \* sign of the selected literal of the strand below the top entry
  LET c == stk[Len(stk) - 1].active[1] IN c.lits[c.sel].pos

DoFailPos(e) ==
  /\ pc = "nostrands" /\ tables[TopT].strands = <<>> /\ Len(stack) > 1
  /\ stack[Len(stack) - 1].active # <<>>
  /\ CallerLitPos(stack)
  \* the caller's strand is discarded, the rest of the stack unwound
  /\ LET s2 == Pop(stack) IN
       ExitUnwound("QuantumExceeded", SetTop(s2, [s2[Len(s2)] EXCEPT !.active = <<>>]), tables)
  /\ UNCHANGED <<clock, stT, stA, lastRes, op, lost>>

DoFailNeg(e) ==
  /\ pc = "nostrands" /\ tables[TopT].strands = <<>> /\ Len(stack) > 1
  /\ stack[Len(stack) - 1].active # <<>>
  /\ ~CallerLitPos(stack)
  /\ LET s2 == Pop(stack)
         c  == s2[Len(s2)]
         s  == c.active[1]
     IN stack' = SetTop(s2, [c EXCEPT !.active =
                    <<[Deselect(s) EXCEPT !.lits = RemoveAt(s.lits, s.sel)]>>])
  /\ pc' = "loop"
  /\ UNCHANGED <<tables, clock, held, exitRes, stT, stA, lastRes, op, lost>>

DoSwitchMode(e) ==
  /\ pc = "nostrands" /\ tables[TopT].strands # <<>> /\ tables[TopT].mode = "Complete"
  /\ ExitWith("QuantumExceeded", stack, [tables EXCEPT ![TopT].mode = "Ambiguous"])
  /\ UNCHANGED <<clock, stT, stA, lastRes, op, lost>>

CycleClosed == Top.minPos >= Top.clock /\ Top.minNeg >= Top.clock

DoNegCycle(e) ==
  /\ pc = "nostrands" /\ tables[TopT].strands # <<>> /\ tables[TopT].mode = "Ambiguous"
  /\ CycleClosed /\ Top.minNeg < INF
  /\ ExitUnwound("NegativeCycle", stack, tables)
  /\ UNCHANGED <<clock, stT, stA, lastRes, op, lost>>

DoCycleComplete(e) ==
  /\ pc = "nostrands" /\ tables[TopT].strands # <<>> /\ tables[TopT].mode = "Ambiguous"
  /\ CycleClosed /\ Top.minNeg = INF
  /\ LET strs == tables[TopT].strands
         tb0  == [tables EXCEPT ![TopT].strands = <<>>]
     IN /\ ClearOK(strs, tb0, 64)
        /\ LET r == ClearRec(strs, tb0, <<>>) IN
             /\ e.cleared = r[2]
             /\ ExitUnwound("QuantumExceeded", stack, r[1])
  /\ UNCHANGED <<clock, stT, stA, lastRes, op, lost>>

DoPartOfCycle(e) ==
  /\ pc = "nostrands" /\ tables[TopT].strands # <<>> /\ tables[TopT].mode = "Ambiguous"
  /\ ~CycleClosed
  /\ Len(stack) > 1                                \* else: panic "nothing on the stack but cyclic result"
  /\ stack[Len(stack) - 1].active # <<>>
  /\ LET s2 == Pop(stack)
         c  == s2[Len(s2)]
         s  == c.active[1]
         mp == IF s.lits[s.sel].pos THEN Min(c.minPos, Top.minPos) ELSE Min(c.minPos, c.clock)
         mn == IF s.lits[s.sel].pos THEN Min(c.minNeg, Top.minNeg)
               ELSE Min(c.minNeg, Min(Top.minPos, Top.minNeg))
     IN /\ e.minPos = mp /\ e.minNeg = mn
        /\ stack' = SetTop(s2, [c EXCEPT !.minPos = mp, !.minNeg = mn, !.active = <<>>])
        /\ tables' = Enq(tables, c.table, s)
  /\ pc' = "loop"
  /\ UNCHANGED <<clock, held, exitRes, stT, stA, lastRes, op, lost>>

\* event DropState{active}: Drop for SolveState with a non-empty stack
DoDropState(e) ==
  /\ pc \in {"exit", "panicked"} /\ stack # <<>>
  /\ e.active = (Top.active # <<>>)
  /\ UnwindOK(stack)
  /\ LET tb1 == IF Top.active # <<>> THEN Enq(tables, TopT, Top.active[1]) ELSE tables IN
       tables' = UnwindTables(SetTop(stack, [Top EXCEPT !.active = <<>>]), tb1)
  /\ stack' = <<>>
  /\ UNCHANGED <<clock, pc, held, exitRes, stT, stA, lastRes, op, lost>>

\* event RefineLate{strand}: root_answer found the requested answer, but it still has delayed
\* subgoals and nobody has created its refinement strand (the table was not the root when it
\* published the answer)
DoRefineLate(e) ==
  /\ pc = "exit" /\ stack = <<>> /\ held = <<>> /\ exitRes = "Answer"
  /\ stA < Len(tables[stT].answers)
  /\ tables[stT].answers[stA + 1].del # <<>>
  /\ stA \notin tables[stT].refined
  /\ IsRefinementOf(e.strand, tables[stT].answers[stA + 1])
  /\ tables' = [Enq(tables, stT, e.strand) EXCEPT ![stT].refined = @ \cup {stA}]
  /\ UNCHANGED <<clock, stack, pc, held, exitRes, stT, stA, lastRes, op, lost>>

\* event RootEnd{res, amb}: root_answer returned to peek_answer
DoRootEnd(e) ==
  /\ pc = "exit" /\ stack = <<>> /\ held = <<>>
  /\ LET a == tables[stT].answers IN
     IF exitRes = "Answer" THEN
        /\ stA < Len(a)
        /\ a[stA + 1].del # <<>> => stA \in tables[stT].refined     \* RefineLate comes first
        /\ IF a[stA + 1].del # <<>> THEN e.res = "InvalidAnswer" /\ e.amb = FALSE
           ELSE e.res = "Answer" /\ e.amb = a[stA + 1].amb
     ELSE e.res = exitRes /\ e.amb = FALSE
  /\ lastRes' = [res |-> e.res, amb |-> e.amb]
  /\ stA' = IF e.res = "InvalidAnswer" THEN stA + 1 ELSE stA
  \* NegativeCycle: peek_answer panics ("negative cycle was detected"), by design of the code
  /\ pc' = IF e.res = "NegativeCycle" THEN "panicked" ELSE "idle"
  /\ UNCHANGED <<tables, clock, stack, held, exitRes, stT, op, lost>>

(* --- make_solution / solve_multiple on top of the answer stream --- *)
PeekDone == pc = "idle" /\ lastRes.res \in {"Answer", "Floundered", "NoMoreSolutions"}
PeekStopped == pc = "idle" /\ lastRes.res = "Stopped"

\* event Stop: should_continue() returned false after a QuantumExceeded
DoStop(e) ==
  /\ pc = "idle" /\ lastRes.res = "QuantumExceeded" /\ op.kind = "limited"
  /\ lastRes' = [res |-> "Stopped", amb |-> FALSE]
  /\ UNCHANGED <<tables, clock, stack, pc, held, exitRes, stT, stA, op, lost>>

\* event Advance: next_answer increments the cursor after its peek
DoAdvance(e) ==
  /\ pc = "idle" /\ op.phase \in {"first", "loopnext", "multinext"}
  /\ (PeekDone \/ PeekStopped)
  /\ stA' = stA + 1
  /\ op' = [op EXCEPT
       !.phase = CASE op.phase = "first" -> "firstdone"
                   [] op.phase = "loopnext" -> "loopdone"
                   [] OTHER -> "multidone",
       !.amb1 = IF op.phase = "first" THEN (lastRes.res = "Floundered" \/ lastRes.amb) ELSE @,
       !.n = IF op.phase = "first" /\ lastRes.res \in {"Answer", "Floundered"} THEN 1 ELSE @]
  /\ UNCHANGED <<tables, clock, stack, pc, held, exitRes, stT, lastRes, lost>>

\* event AggEnd{sol, via, n}: make_solution returns
DoAggEnd(e) ==
  /\ pc = "idle" /\ op.kind \in {"solve", "limited"}
  /\ \/ /\ op.phase = "firstdone" /\ lastRes.res = "NoMoreSolutions"
        /\ e.sol = "None" /\ e.via = "first"
     \/ /\ op.phase = "firstdone" /\ lastRes.res = "Stopped"
        /\ e.sol = "Unknown" /\ e.via = "firstquantum"
     \/ /\ Ph = "second" /\ PeekStopped
        /\ e.sol \in {"Unknown", "Suggested"} /\ e.via = "peekquantum"
     \/ /\ Ph = "second" /\ PeekDone /\ lastRes.res = "NoMoreSolutions" /\ ~op.amb1
        /\ e.sol = "Unique" /\ e.via = "peeknomore"
     \/ /\ Ph = "loop"
        /\ \/ e.sol = "Unknown" /\ e.via = "trivial"
           \/ e.sol = "Definite" /\ e.via = "nofuture"
        /\ e.n = op.n
     \/ /\ op.phase = "loopdone" /\ lastRes.res = "NoMoreSolutions"
        /\ e.sol = "Definite" /\ e.via = "nomore" /\ e.n = op.n
     \/ /\ op.phase = "loopdone" /\ lastRes.res = "Stopped"
        /\ e.sol = "Suggested" /\ e.via = "quantum" /\ e.n = op.n
  /\ op' = [op EXCEPT !.phase = "done:" \o e.sol]
  /\ UNCHANGED <<tables, clock, stack, pc, held, exitRes, stT, stA, lastRes, lost>>

\* event AggMerge{n}: a further answer was anti-unified into the guidance
DoAggMerge(e) ==
  /\ pc = "idle" /\ op.phase = "loopdone" /\ lastRes.res \in {"Answer", "Floundered"}
  /\ e.n = op.n + 1
  /\ op' = [op EXCEPT !.phase = "loop", !.n = e.n]
  /\ UNCHANGED <<tables, clock, stack, pc, held, exitRes, stT, stA, lastRes, lost>>

\* event Cb{kind, more}: solve_multiple invoked the caller's closure (emitted by the harness)
DoCb(e) ==
  /\ pc = "idle" /\ op.kind = "multi"
  /\ \/ /\ op.phase = "multipeek" /\ PeekDone
        /\ e.more = (lastRes.res # "NoMoreSolutions")
        /\ op' = [op EXCEPT !.phase = "multicb", !.n = op.n + 1]
     \* a floundered table is reported once, as the last result (fix F23)
     \/ /\ op.phase = "multidone" /\ lastRes.res = "Floundered"
        /\ e.kind = "Floundered" /\ ~e.more
        /\ op' = [op EXCEPT !.phase = "multiflo", !.n = op.n + 1]
  /\ UNCHANGED <<tables, clock, stack, pc, held, exitRes, stT, stA, lastRes, lost>>

\* event OpEnd{class}: the public call returned (emitted by the harness)
DoOpEnd(e) ==
  /\ pc = "idle" /\ op.kind # "none"
  /\ \/ op.kind \in {"solve", "limited"} /\ op.phase = "done:" \o e.class
     \/ op.kind = "multi" /\ e.class = "Done" /\ op.phase = "multidone" /\ lastRes.res = "NoMoreSolutions"
     \/ op.kind = "multi" /\ e.class = "Stopped" /\ op.phase = "multicb"
     \/ op.kind = "multi" /\ e.class \in {"Done", "Stopped"} /\ op.phase = "multiflo"
  /\ op' = NoOp
  /\ UNCHANGED <<tables, clock, stack, pc, held, exitRes, stT, stA, lastRes, lost>>

(* --- panics injected into database callbacks (C12) --- *)
\* event Panic: a callback panicked while the engine was at `pc`.
\* merge_answer_into_strand enqueues the strand that waits for the table's NEXT answer before it unifies the answer into the strand
\* (the first point at which it calls into the database): a panic during the merge leaves that strand in the queue
PanicDuringMergeLeaves ==
  IF pc = "selected" /\ held # <<>> /\ held[1].sel # 0
  THEN LET s == held[1]  t == s.selT + 1 IN
       IF s.lits[s.sel].pos /\ s.selA < Len(tables[t].answers)
       THEN LET ans == tables[t].answers[s.selA + 1] IN
            IF ~(tables[TopT].mode = "Complete" /\ ans.amb) /\ (~ans.trivsub \/ ans.del # <<>>)
            THEN <<[s EXCEPT !.selA = s.selA + 1]>> ELSE <<>>
       ELSE <<>>
  ELSE <<>>
\* The two places where ensure_root_answer calls into the database while it holds a strand in a local -- creating the table of a
\* subgoal (select_subgoal) and unifying an answer into the strand (merge_answer_into_strand) -- first leave a copy of the strand in
\* the stack entry (fix F28), so that `Drop for SolveState` re-enqueues it when the callback unwinds.
Parked == pc \in {"select", "selected"} /\ held # <<>> /\ stack # <<>>
DoPanic(e) ==
  /\ pc \notin {"idle", "exit", "panicked"} \/ (pc = "idle" /\ op.phase \in {"stream"})
  /\ lost' = IF Parked THEN lost ELSE lost \o held
  /\ stack' = IF Parked THEN SetTop(stack, [Top EXCEPT !.active = held]) ELSE stack
  /\ held' = <<>>
  /\ pc' = "panicked"
  /\ tables' = IF PanicDuringMergeLeaves # <<>> THEN Enq(tables, TopT, PanicDuringMergeLeaves[1]) ELSE tables
  /\ UNCHANGED <<clock, exitRes, stT, stA, lastRes, op>>

\* event OpEnd{class = "Panic"} after a panic: the unwinding reached the caller
DoOpEndPanic(e) ==
  /\ pc = "panicked" /\ stack = <<>> /\ e.class = "Panic"
  /\ pc' = "idle" /\ op' = NoOp
  /\ lastRes' = [res |-> "none", amb |-> FALSE]
  /\ UNCHANGED <<tables, clock, stack, held, exitRes, stT, stA, lost>>

----------------------------------------------------------------------------
SLGInit ==
  /\ tables = <<>> /\ clock = 0 /\ stack = <<>> /\ pc = "idle" /\ held = <<>>
  /\ exitRes = "none" /\ stT = 0 /\ stA = 0
  /\ lastRes = [res |-> "none", amb |-> FALSE]
  /\ op = NoOp /\ lost = <<>>

Step(e) ==
  CASE e.ev = "Op"            -> DoOp(e)
    [] e.ev = "TableNew"      -> DoTableNew(e)
    [] e.ev = "Stream"        -> DoStream(e)
    [] e.ev = "RootBegin"     -> DoRootBegin(e)
    [] e.ev = "Push"          -> DoPush(e)
    [] e.ev = "Take"          -> DoTake(e)
    [] e.ev = "NotSelected"   -> DoNotSelected(e)
    [] e.ev = "Reconsider"    -> DoReconsider(e)
    [] e.ev = "AllFloundered" -> DoAllFloundered(e)
    [] e.ev = "Select"        -> DoSelect(e)
    [] e.ev = "FlounderLit"   -> DoFlounderLit(e)
    [] e.ev = "SubFloundered" -> DoSubFloundered(e)
    [] e.ev = "Merge"         -> DoMerge(e)
    [] e.ev = "CycleCo"       -> DoCycleCo(e)
    [] e.ev = "NegSkip"       -> DoNegSkip(e)
    [] e.ev = "RefineLate"    -> DoRefineLate(e)
    [] e.ev = "CyclePos"      -> DoCyclePos(e)
    [] e.ev = "Requeue"       -> DoRequeue(e)
    [] e.ev = "AnswerTooLarge" -> DoAnswerTooLarge(e)
    [] e.ev = "AnswerDup"     -> DoAnswerDup(e)
    [] e.ev = "AnswerNew"     -> DoAnswerNew(e)
    [] e.ev = "PopToCaller"   -> DoPopToCaller(e)
    [] e.ev = "Refine"        -> DoRefine(e)
    [] e.ev = "RootAnswer"    -> DoRootAnswer(e)
    [] e.ev = "FailRoot"      -> DoFailRoot(e)
    [] e.ev = "FailPos"       -> DoFailPos(e)
    [] e.ev = "FailNeg"       -> DoFailNeg(e)
    [] e.ev = "SwitchMode"    -> DoSwitchMode(e)
    [] e.ev = "NegCycle"      -> DoNegCycle(e)
    [] e.ev = "CycleComplete" -> DoCycleComplete(e)
    [] e.ev = "PartOfCycle"   -> DoPartOfCycle(e)
    [] e.ev = "DropState"     -> DoDropState(e)
    [] e.ev = "RootEnd"       -> DoRootEnd(e)
    [] e.ev = "Stop"          -> DoStop(e)
    [] e.ev = "Advance"       -> DoAdvance(e)
    [] e.ev = "AggEnd"        -> DoAggEnd(e)
    [] e.ev = "AggMerge"      -> DoAggMerge(e)
    [] e.ev = "Cb"            -> DoCb(e)
    [] e.ev = "OpEnd"         -> (DoOpEnd(e) \/ DoOpEndPanic(e))
    [] e.ev = "Panic"         -> DoPanic(e)
    [] OTHER -> FALSE

----------------------------------------------------------------------------
(* Invariants of the engine state (checked on every model-checked state and at every
   step of every validated real trace). *)

StrandOK(s) ==
  /\ s.sel \in 0..Len(s.lits)
  /\ s.sel # 0 => s.selT + 1 \in 1..Len(tables)
  /\ s.flo # <<>> \/ TRUE

StackWellFormed ==
  /\ \A i \in 1..Len(stack) : stack[i].table \in 1..Len(tables)
  /\ \A i, j \in 1..Len(stack) : i < j => stack[i].clock < stack[j].clock   \* ClockMonotone
  /\ \A i \in 1..Len(stack) : stack[i].clock <= clock
  /\ \A i, j \in 1..Len(stack) : i # j => stack[i].table # stack[j].table   \* a table is active once
  /\ pc = "idle" => stack = <<>> /\ held = <<>>
  /\ pc \in {"select", "selectnew", "allflo", "selected", "answer"} => Len(held) = 1
  /\ pc \in {"loop", "nostrands", "push0", "answered", "refined"} => held = <<>>
  \* while a table is being worked on (not the top), its entry keeps the calling strand
  /\ pc \in {"loop", "nostrands", "select", "selectnew", "allflo", "selected", "answer", "answered"}
        => \A i \in 1..(Len(stack) - 1) : stack[i].active # <<>> /\ stack[i].active[1].sel # 0
                                          /\ stack[i].active[1].selT + 1 = stack[i + 1].table

TablesWellFormed ==
  /\ \A i, j \in 1..Len(tables) : i # j => tables[i].key # tables[j].key
  /\ \A t \in 1..Len(tables) :
       /\ tables[t].flo => tables[t].strands = <<>> /\ tables[t].answers = <<>>
       /\ \A i, j \in 1..Len(tables[t].answers) :                          \* NoDuplicateAnswer
            i # j => tables[t].answers[i].key # tables[t].answers[j].key
       /\ \A i \in 1..Len(tables[t].strands) : StrandOK(tables[t].strands[i])
       /\ \A i \in tables[t].refined : i < Len(tables[t].answers) /\ tables[t].answers[i + 1].del # <<>>

MinimumsSane ==
  \A i \in 1..Len(stack) : stack[i].minPos <= INF /\ stack[i].minNeg <= INF

SLGTypeInv == StackWellFormed /\ TablesWellFormed /\ MinimumsSane
=============================================================================
