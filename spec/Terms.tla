-------------------------------- MODULE Terms --------------------------------
(* The abstract term language shared by the chalk-ir level specifications (Flags, Binders,  *)
(* CouldMatch, Infer, Solve).  A term is a record [k, n, m, a]: kind, two integers, children. *)
(*   types      adt(n = id; args)  tuple  slice  array(ty, const)  ref(m = mut; lt, ty)        *)
(*              raw(m; ty)  scalar(n)  str  never  error  fnptr(n = #binders; params.., ret)   *)
(*              dyn(lt, bounds..)  proj(n; args)  opaque(n; args)                              *)
(*              bound(n = de Bruijn depth, m = index)  infer(n = var, m = 0 gen/1 int/2 float) *)
(*              ph(n = universe, m = index)                                                    *)
(*   lifetimes  lstatic lerased lerror linfer(n) lph(n, m) lbound(n, m)                        *)
(*   consts     cval(n; ty) cinfer(n; ty) cph(n, m; ty) cbound(n, m; ty)                       *)
(*   dyn bounds wc_impl(n = trait, m = #binders; args)  wc_outl(m; lt, lt)  wc_tyoutl(m; ty, lt)*)
(*              wc_aliaseq(n = assoc ty, m; args.., ty)   -- `<Self as Tr>::A<args> = ty`, i.e. *)
(*              the clause contains a projection                                               *)
EXTENDS Integers, Sequences, FiniteSets, TLC

T(k, n, m, a) == [k |-> k, n |-> n, m |-> m, a |-> a]
Atom(k) == T(k, 0, 0, <<>>)

LtKinds    == {"lstatic", "lerased", "lerror", "linfer", "lph", "lbound"}
ConstKinds == {"cval", "cinfer", "cph", "cbound"}
WcKinds    == {"wc_impl", "wc_outl", "wc_tyoutl", "wc_aliaseq"}
BoundKinds == {"bound", "lbound", "cbound"}
IsLt(t) == t.k \in LtKinds
IsConst(t) == t.k \in ConstKinds
IsWc(t) == t.k \in WcKinds
IsTy(t) == ~IsLt(t) /\ ~IsConst(t) /\ ~IsWc(t)

(* number of binders crossed when going from t to its i-th child                            *)
(*   fnptr: every child is under the fn pointer's binder (TypeFoldable for FnPointer always  *)
(*   shifts in, whatever num_binders is); dyn: the lifetime is outside, the bounds are under *)
(*   the Self binder; each bound is itself a Binders<WhereClause>.                           *)
Up(t, i) == CASE t.k = "fnptr" -> 1
              [] t.k = "dyn" -> (IF i = 1 THEN 0 ELSE 1)
              [] t.k \in WcKinds -> 1
              [] OTHER -> 0

RECURSIVE Size(_), Subterms(_)
Size(t) == 1 + (IF t.a = <<>> THEN 0 ELSE LET s == [i \in DOMAIN t.a |-> Size(t.a[i])] IN
                  LET RECURSIVE Sum(_) Sum(j) == IF j = 0 THEN 0 ELSE s[j] + Sum(j - 1) IN Sum(Len(t.a)))
Subterms(t) == {t} \cup UNION { Subterms(t.a[i]) : i \in DOMAIN t.a }

(* ------------------------------------ C26: flags ------------------------------------- *)
(* "The flags report exactly which kinds of unknowns, placeholders, projections, opaque     *)
(* types, errors and lifetimes occur anywhere inside the type" -- stated by occurrence of a  *)
(* subterm, independently of how compute_flags recurses.                                     *)
Occurs(t, ks) == \E s \in Subterms(t) : s.k \in ks
Flags(t) ==
     (IF Occurs(t, {"infer"})  THEN {"HAS_TY_INFER"} ELSE {})
  \cup (IF Occurs(t, {"linfer"}) THEN {"HAS_RE_INFER"} ELSE {})
  \cup (IF Occurs(t, {"cinfer"}) THEN {"HAS_CT_INFER"} ELSE {})
  \cup (IF Occurs(t, {"ph"})     THEN {"HAS_TY_PLACEHOLDER"} ELSE {})
  \cup (IF Occurs(t, {"lph"})    THEN {"HAS_RE_PLACEHOLDER"} ELSE {})
  \cup (IF Occurs(t, {"cph"})    THEN {"HAS_CT_PLACEHOLDER"} ELSE {})
  \cup (IF Occurs(t, {"linfer", "lph"}) THEN {"HAS_FREE_LOCAL_REGIONS"} ELSE {})
  \cup (IF Occurs(t, {"linfer", "lph", "lstatic"}) THEN {"HAS_FREE_REGIONS"} ELSE {})
  \cup (IF Occurs(t, {"proj", "wc_aliaseq"}) THEN {"HAS_TY_PROJECTION"} ELSE {})
  \cup (IF Occurs(t, {"opaque"}) THEN {"HAS_TY_OPAQUE"} ELSE {})
  \cup (IF Occurs(t, {"error"})  THEN {"HAS_ERROR"} ELSE {})
  \cup (IF Occurs(t, {"lerror"}) THEN {"HAS_RE_ERROR"} ELSE {})
  \cup (IF Occurs(t, {"lbound"}) THEN {"HAS_RE_LATE_BOUND"} ELSE {})
  \cup (IF Occurs(t, {"lerased"}) THEN {"HAS_RE_ERASED"} ELSE {})
OccurrenceFlagNames ==
  {"HAS_TY_INFER", "HAS_RE_INFER", "HAS_CT_INFER", "HAS_TY_PLACEHOLDER", "HAS_RE_PLACEHOLDER", "HAS_CT_PLACEHOLDER",
   "HAS_FREE_LOCAL_REGIONS", "HAS_FREE_REGIONS", "HAS_TY_PROJECTION", "HAS_TY_OPAQUE", "HAS_CT_PROJECTION", "HAS_ERROR",
   "HAS_RE_ERROR", "HAS_RE_LATE_BOUND", "HAS_RE_ERASED"}

(* ---------------------------- C25: de Bruijn operations ------------------------------ *)
(* As implemented (fold.rs, TypeSuperFoldable for Const): the type carried by a constant      *)
(* *variable* (bound / inference / placeholder) is handed to the folder callback unfolded,  *)
(* only the type of a concrete constant is folded.  In well-kinded terms that type is the    *)
(* binder's declared (closed) type, so nothing is lost; the operators below mirror the code. *)
ConstVarKinds == {"cbound", "cinfer", "cph"}
Fail == Atom("FAIL")
AnyFail(s) == \E i \in DOMAIN s : s[i] = Fail

RECURSIVE ShiftIn(_, _), ShiftOut(_, _), Subst(_, _, _), ShiftInBy(_, _, _)
(* shifted_in: every variable that points outside the term (depth >= cutoff c) moves one binder out *)
ShiftIn(t, c) ==
  LET kids == IF t.k \in ConstVarKinds THEN t.a ELSE [i \in DOMAIN t.a |-> ShiftIn(t.a[i], c + Up(t, i))] IN
  IF t.k \in BoundKinds /\ t.n >= c THEN [t EXCEPT !.n = @ + 1, !.a = kids] ELSE [t EXCEPT !.a = kids]
ShiftInBy(t, c, by) == IF by = 0 THEN t ELSE ShiftInBy(ShiftIn(t, c), c, by - 1)
(* shifted_out: fails if the term mentions the binder that is being removed *)
ShiftOut(t, c) ==
  LET kids == IF t.k \in ConstVarKinds THEN t.a ELSE [i \in DOMAIN t.a |-> ShiftOut(t.a[i], c + Up(t, i))] IN
  IF AnyFail(kids) THEN Fail
  ELSE IF t.k \in BoundKinds /\ t.n = c THEN Fail
  ELSE IF t.k \in BoundKinds /\ t.n > c THEN [t EXCEPT !.n = @ - 1, !.a = kids]
  ELSE [t EXCEPT !.a = kids]
(* Subst::apply(params, t): variables of the innermost binder are replaced by the parameters   *)
(* (moved under the c binders crossed so far), variables of outer binders move one binder in.  *)
Subst(t, params, c) ==
  LET kids == IF t.k \in ConstVarKinds THEN t.a ELSE [i \in DOMAIN t.a |-> Subst(t.a[i], params, c + Up(t, i))] IN
  IF t.k \in BoundKinds /\ t.n = c THEN ShiftInBy(params[t.m + 1], 0, c)
  ELSE IF t.k \in BoundKinds /\ t.n > c THEN [t EXCEPT !.n = @ - 1, !.a = kids]
  ELSE [t EXCEPT !.a = kids]

(* free-variable bookkeeping used by the laws *)
RECURSIVE MaxFree(_, _)
\* 1 + the largest binder distance of a variable pointing outside t (0 if t is closed)
MaxFree(t, c) ==
  LET own == IF t.k \in BoundKinds /\ t.n >= c THEN t.n - c + 1 ELSE 0
      RECURSIVE Mx(_)
      Mx(i) == IF i = 0 THEN 0 ELSE LET x == MaxFree(t.a[i], c + Up(t, i)) y == Mx(i - 1) IN IF x > y THEN x ELSE y
  IN IF own > Mx(Len(t.a)) THEN own ELSE Mx(Len(t.a))
==============================================================================
