--------------------------- MODULE GroundMeaning ---------------------------
(* The declarative meaning of a propositional program p = [clauses, co] (the same definition   *)
(* as in SLGGround.tla, with the program as a parameter): ordinary atoms by least fixed point,  *)
(* coinductive atoms by greatest fixed point per SCC, `not` stratified.                         *)
EXTENDS Naturals, Sequences, FiniteSets

MAtoms == {"a1", "a2", "a3", "a4"}
DepOf(p, a) == {b \in MAtoms : \E i \in 1..Len(p.clauses) :
                  p.clauses[i].head = a /\ \E j \in 1..Len(p.clauses[i].body) : p.clauses[i].body[j].a = b}
RECURSIVE ReachFrom(_, _, _)
ReachFrom(p, S, n) == IF n = 0 THEN S ELSE ReachFrom(p, S \cup UNION {DepOf(p, b) : b \in S}, n - 1)
MReach(p, a) == ReachFrom(p, DepOf(p, a), Cardinality(MAtoms))
SCC(p, a) == {a} \cup {b \in MReach(p, a) : a \in MReach(p, b)}
Lower(p, a) == MReach(p, a) \ SCC(p, a)
NegDepOf(p, a) == {b \in MAtoms : \E i \in 1..Len(p.clauses) :
               p.clauses[i].head = a /\ \E j \in 1..Len(p.clauses[i].body) : p.clauses[i].body[j].a = b /\ ~p.clauses[i].body[j].pos}
MStratified(p) == \A a \in MAtoms : \A b \in NegDepOf(p, a) : a \notin ({b} \cup MReach(p, b))
MNoMixedCycles(p) == \A a \in MAtoms : \A b \in SCC(p, a) : (a \in p.co) = (b \in p.co)
BodyTrue(body, M) == \A j \in 1..Len(body) : (body[j].a \in M) = body[j].pos
Derive(p, C, M) == {a \in C : \E i \in 1..Len(p.clauses) : p.clauses[i].head = a /\ BodyTrue(p.clauses[i].body, M)}
RECURSIVE MLfp(_, _, _, _, _), MGfp(_, _, _, _, _), MModel(_, _, _, _)
MLfp(p, C, Mlow, X, n) == IF n = 0 THEN X ELSE MLfp(p, C, Mlow, Derive(p, C, Mlow \cup X), n - 1)
MGfp(p, C, Mlow, X, n) == IF n = 0 THEN X ELSE MGfp(p, C, Mlow, Derive(p, C, Mlow \cup X) \cap X, n - 1)
MModel(p, done, M, fuel) ==
  IF done = MAtoms \/ fuel = 0 THEN M
  ELSE LET ready == {a \in MAtoms \ done : Lower(p, a) \subseteq done}
           new   == UNION {IF a \in p.co THEN MGfp(p, SCC(p, a), M, SCC(p, a), Cardinality(SCC(p, a)) + 1)
                           ELSE MLfp(p, SCC(p, a), M, {}, Cardinality(SCC(p, a)) + 1) : a \in ready}
       IN MModel(p, done \cup ready, M \cup new, fuel - 1)
MTrueAtoms(p) == MModel(p, {}, {}, Cardinality(MAtoms) + 1)
=============================================================================
