SPECIFICATION TraceSpec
INVARIANTS NoUB NoDoubleDrop NoDoubleFree SuccessDropsNothingEarly FailedExact SucceededExact ResultIntact
CONSTRAINT Progress
POSTCONDITION TraceAccepted
CHECK_DEADLOCK FALSE
