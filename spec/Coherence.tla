------------------------------ MODULE Coherence ------------------------------
(* Specification of chalk-solve/src/coherence.rs + coherence/solve.rs for one trait `Foo` *)
(* over a small language of impl headers:                                                  *)
(*     impl<T> Foo for V^d<T> [where T: Bar]     (b = "T")                                 *)
(*     impl    Foo for V^d<A> / V^d<B>           (b = "A" / "B"),  positive or negative    *)
(* with `Bar` implemented for a chosen subset of {A, B}.  Two parts:                       *)
(*  - the *meaning*: which concrete types an impl applies to (ApplySet), overlap, subset;  *)
(*  - the *algorithm* as implemented: the pairwise loop of visit_specializations_of_trait  *)
(*    (disjoint / specializes queries), build_specialization_forest, set_priorities.       *)
(* Properties (C19): the algorithm never reaches the panic state; when it accepts, equal   *)
(* priority => no common concrete type, strict subset => higher priority.                  *)
EXTENDS Integers, Sequences, FiniteSets, TLC

CONSTANTS MaxImpls,      \* impls of Foo per program
          MaxD           \* maximal number of V's in an impl header

Bases == {"T", "A", "B"}
ImplU == { r \in [d : 0 .. MaxD, b : Bases, wc : {"none", "Bar"}, pos : BOOLEAN] :
             r.wc = "Bar" => r.b = "T" }

\* concrete types V^d<A|B>, deep enough to contain a witness of every overlap (see DESIGN)
Types == [d : 0 .. MaxD + 1, b : {"A", "B"}]

VARIABLES prog,     \* [impls : Seq(ImplU), bar : SUBSET {"A","B"}, marker : BOOLEAN]
          pc,       \* "pairs" | "roots" | "visit" | "done"
          pi, pj,   \* current pair of the tuple_combinations loop (1-based ids)
          nodes,    \* forest nodes in creation order (sequence of impl ids)
          edges,    \* sequence of <<less, more>> in insertion order (impl ids)
          stack,    \* explicit DFS stack of set_priorities: sequence of [n, p]
          roots,    \* remaining roots to visit
          prio,     \* function impl id -> priority, for impls inserted so far
          verdict   \* "none" | "ok" | "overlap" | "panic"

vars == <<prog, pc, pi, pj, nodes, edges, stack, roots, prio, verdict>>

N == Len(prog.impls)
Impl(i) == prog.impls[i]

(* ---------------------------------- meaning ---------------------------------------- *)
BarHolds(ty) == ty.d = 0 /\ ty.b \in prog.bar
Matches(p, ty) == IF p.b = "T" THEN ty.d >= p.d ELSE ty.d = p.d /\ ty.b = p.b
Binding(p, ty) == [d |-> ty.d - p.d, b |-> ty.b]
Applies(p, ty) == Matches(p, ty) /\ (p.wc = "Bar" => BarHolds(Binding(p, ty)))
ApplySet(i) == { ty \in Types : Applies(Impl(i), ty) }

(* --------------------- the two queries the algorithm poses ------------------------- *)
(* disjoint(l, r): `not { compatible { exists<..> { headers equal, WC_l, WC_r } } }` is     *)
(* Unique.  All items are local, so `compatible` adds nothing: the goal holds iff no type   *)
(* satisfies both headers and both where-clause lists.                                      *)
(* The `compatible` modality (program_clauses.rs, TraitDatum): in a compatible world a        *)
(* downstream crate may declare a type `D` and implement any of this crate's traits for it     *)
(* (`Implemented(T: Bar) :- Compatible, DownstreamType(T), CannotProve`), so an unknown type   *)
(* satisfies `T: Bar` "maybe" and the disjointness proof fails.  V is not fundamental, so      *)
(* V<D> is not a downstream type.  WorldTypes adds V^d<D> with D: Bar possible.                *)
WorldTypes == Types \cup [d : 0 .. MaxD + 1, b : {"D"}]
BarMayHold(ty) == ty.d = 0 /\ (ty.b \in prog.bar \/ ty.b = "D")
MayApply(p, ty) == Matches(p, ty) /\ (p.wc = "Bar" => BarMayHold(Binding(p, ty)))
Disjoint(l, r) == ~ \E ty \in WorldTypes : MayApply(Impl(l), ty) /\ MayApply(Impl(r), ty)

(* specializes(less, more): forall<P_more> { if (WC_more) { exists<Q_less> {hdrs equal, WC_less}}} *)
(* `more`'s parameter is an opaque placeholder; the only facts about it are WC_more.        *)
Specializes(less, more) ==
  LET L == Impl(less)  M == Impl(more) IN
  IF L.b = "T"
  THEN /\ M.d >= L.d
       /\ (L.wc = "Bar" =>
             LET x == [d |-> M.d - L.d, b |-> M.b] IN      \* what U is bound to
             IF x.b = "T" THEN x.d = 0 /\ M.wc = "Bar"      \* proved from the hypothesis only
                          ELSE BarHolds(x))
  ELSE M.b = L.b /\ M.d = L.d

(* ---------------------------------- algorithm -------------------------------------- *)
ImplSeqs == UNION { [1 .. n -> ImplU] : n \in 1 .. MaxImpls }
Programs == [impls : ImplSeqs, bar : SUBSET {"A", "B"}, marker : BOOLEAN]

InitWith(p) ==
  /\ prog = p
  /\ pc = "pairs" /\ pi = 1 /\ pj = 2
  /\ nodes = <<>> /\ edges = <<>> /\ stack = <<>> /\ roots = <<>>
  /\ prio = <<>> /\ verdict = "none"

InSeq(s, x) == \E k \in 1 .. Len(s) : s[k] = x
AddNode(s, x) == IF InSeq(s, x) THEN s ELSE Append(s, x)

NextPair ==          \* tuple_combinations order: (1,2),(1,3),..,(2,3),..
  IF pj < N THEN <<pi, pj + 1>> ELSE <<pi + 1, pi + 2>>

Marker ==            \* "Ignore impls for marker traits as they are allowed to overlap."
  /\ pc = "pairs" /\ prog.marker /\ pi = 1 /\ pj = 2
  /\ pc' = "roots"
  /\ UNCHANGED <<prog, pi, pj, nodes, edges, stack, roots, prio, verdict>>

PairsDone ==
  /\ pc = "pairs" /\ ~prog.marker /\ (pi >= N \/ pj > N)
  /\ pc' = "roots"
  /\ UNCHANGED <<prog, pi, pj, nodes, edges, stack, roots, prio, verdict>>

CheckPair ==
  /\ pc = "pairs" /\ ~prog.marker /\ pi < N /\ pj <= N
  /\ LET l == pi  r == pj
         skip == (~Impl(l).pos /\ ~Impl(r).pos) \/ Disjoint(l, r)   \* two negative impls never overlap
         s1 == Specializes(l, r)      \* r is more special than l
         s2 == Specializes(r, l)
     IN IF skip
        THEN UNCHANGED <<nodes, edges, verdict, pc>>
        ELSE IF s1 /\ ~s2
             THEN /\ nodes' = AddNode(AddNode(nodes, l), r) /\ edges' = Append(edges, <<l, r>>)
                  /\ UNCHANGED <<verdict, pc>>
             ELSE IF s2 /\ ~s1
                  THEN /\ nodes' = AddNode(AddNode(nodes, r), l) /\ edges' = Append(edges, <<r, l>>)
                       /\ UNCHANGED <<verdict, pc>>
                  ELSE /\ verdict' = "overlap" /\ pc' = "done" /\ UNCHANGED <<nodes, edges>>
  /\ pi' = NextPair[1] /\ pj' = NextPair[2]
  /\ UNCHANGED <<prog, stack, roots, prio>>

HasIncoming(n) == \E k \in 1 .. Len(edges) : edges[k][2] = n
\* forest.externals(Direction::Incoming): nodes without incoming edge, in node index order
Externals == SelectSeq(nodes, LAMBDA n : ~HasIncoming(n))
\* forest.neighbors(n): petgraph walks the outgoing edge list from the newest edge to the oldest
RECURSIVE Rev(_)
Rev(s) == IF s = <<>> THEN <<>> ELSE Append(Rev(Tail(s)), Head(s))
Children(n) == LET out == SelectSeq(edges, LAMBDA e : e[1] = n) IN
               [k \in 1 .. Len(out) |-> Rev(out)[k][2]]

FindRoots ==
  /\ pc = "roots"
  /\ roots' = Externals /\ pc' = "visit"
  /\ UNCHANGED <<prog, pi, pj, nodes, edges, stack, prio, verdict>>

Assigned(n) == n \in DOMAIN prio

StartRoot ==
  /\ pc = "visit" /\ stack = <<>> /\ roots # <<>>
  /\ stack' = <<[n |-> Head(roots), p |-> 0]>> /\ roots' = Tail(roots)
  /\ UNCHANGED <<prog, pc, pi, pj, nodes, edges, prio, verdict>>

(* set_priorities(idx, p): map.insert(impl, p), then every child with p + 1.  As repaired  *)
(* (fix: commit), `insert` keeps the maximum when the impl is reached along several paths; *)
(* the pinned tree asserted the entry to be absent and panicked (chain T, V<T>, V<A>).     *)
Visit ==
  /\ pc = "visit" /\ stack # <<>>
  /\ LET top == stack[Len(stack)]
         rest == SubSeq(stack, 1, Len(stack) - 1)
         ch == Children(top.n)
         new == IF Assigned(top.n) /\ prio[top.n] >= top.p THEN prio[top.n] ELSE top.p
     IN /\ prio' = [k \in (DOMAIN prio) \cup {top.n} |-> IF k = top.n THEN new ELSE prio[k]]
        \* recursion: children are visited in order, depth first => push in reverse
        /\ stack' = rest \o [k \in 1 .. Len(ch) |-> [n |-> Rev(ch)[k], p |-> top.p + 1]]
  /\ UNCHANGED <<prog, pc, pi, pj, nodes, edges, roots, verdict>>

Finish ==
  /\ pc = "visit" /\ stack = <<>> /\ roots = <<>>
  /\ verdict' = "ok" /\ pc' = "done"
  /\ UNCHANGED <<prog, pi, pj, nodes, edges, stack, roots, prio>>

Done == pc = "done"
Next == Marker \/ PairsDone \/ CheckPair \/ FindRoots \/ StartRoot \/ Visit \/ Finish
        \/ (Done /\ UNCHANGED vars)

(* ---------------------------------- properties ------------------------------------- *)
Total == verdict # "panic"
\* an impl that takes part in no specialization has the default priority
P(i) == IF Assigned(i) THEN prio[i] ELSE 0
Accepted == Done /\ verdict = "ok"
EqualPrioDisjoint ==
  Accepted /\ ~prog.marker =>
    \A i, j \in 1 .. N : (i # j /\ P(i) = P(j) /\ (Impl(i).pos \/ Impl(j).pos)) => ApplySet(i) \cap ApplySet(j) = {}
SubsetHigher ==
  Accepted /\ ~prog.marker =>
    \A i, j \in 1 .. N : (i # j /\ ApplySet(i) # ApplySet(j) /\ ApplySet(i) \subseteq ApplySet(j)
                          /\ ApplySet(i) # {} /\ (Impl(i).pos \/ Impl(j).pos)) => P(i) > P(j)
BoundedDfs == Len(stack) <= 2 * MaxImpls * MaxImpls
==============================================================================
