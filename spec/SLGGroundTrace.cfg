SPECIFICATION TraceSpec
INVARIANT TraceInv
POSTCONDITION TraceAccepted
CHECK_DEADLOCK FALSE
