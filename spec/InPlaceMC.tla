----------------------------- MODULE InPlaceMC -----------------------------
(* TLC enumerates every input of InPlace.tla up to MaxN elements: kind, length, failure     *)
(* position, failure mode, layout (in place / fallback), ZST; checks the memory-safety      *)
(* invariants in every state and prints one REPLAY record per behaviour.                    *)
EXTENDS InPlace, Json

CONSTANTS MaxN

Init == \E r \in Inputs(MaxN) : InitWith(r)
Spec == Init /\ [][Next]_vars

Replay == Done => PrintT(<<"REPLAY", ToJson([inp |-> inp, log |-> log, outcome |-> pc,
                                             dropsT |-> [k \in Idx |-> dropsT[k]], dropsU |-> [k \in Idx |-> dropsU[k]],
                                             frees |-> frees])>>)
Terminates == <>Done
=============================================================================
