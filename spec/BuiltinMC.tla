------------------------------ MODULE BuiltinMC ------------------------------
(* C08: the built-in traits Sized, Copy, Clone, Tuple, FnPtr as structural predicates over a   *)
(* bounded grammar of types, combined with the explicit impls a program declares.               *)
(*   Sized : scalars, !, arrays, references, raw pointers, fn pointers, enums are Sized;        *)
(*           str, slices, trait objects are not; a tuple is Sized iff it is () or its last      *)
(*           element is; a struct iff it has no fields or its last field (after substitution)   *)
(*           is.                                                                                 *)
(*   Copy / Clone : tuples iff all elements are, arrays iff the element is, fn pointers always; *)
(*           every other type only through an explicit impl of the program (cfg).               *)
(*   Tuple : exactly the tuple types.   FnPtr : exactly the fn pointer types.                   *)
(* TLC enumerates (explicit-impl configuration, type, trait) and prints the verdict the real    *)
(* solvers must give for the closed goal `T: Trait`.                                            *)
EXTENDS Integers, Sequences, FiniteSets, TLC, Json

N(k) == [k |-> k, a |-> <<>>]
U1(k, x) == [k |-> k, a |-> <<x>>]
U2(k, x, y) == [k |-> k, a |-> <<x, y>>]
\* declared ADTs (fixed program text, see the driver):
\*   struct Unit {}   struct Bytes { len: u32, data: [u32] }   struct Name { inner: str }   struct Wrap { tag: u32, p: Bytes }
\*   struct Pair<T> { a: u32, last: T }   struct Gen2<T> { first: T, last: u32 }   enum En { A(u32), B(str) }
Atoms == { N("u32"), N("bool"), N("str"), N("never"), N("unit"), N("dyn"), N("Unit"), N("Bytes"), N("Name"), N("Wrap"), N("En") }
Ctor1 == {"slice", "array", "tup1", "ref", "refmut", "ptr", "Pair", "Gen2"}
L1 == { U1(c, x) : c \in Ctor1, x \in Atoms } \cup { U2("tup2", x, y) : x \in {N("u32"), N("str"), N("Bytes")}, y \in Atoms }
         \cup { U2("fn", x, y) : x \in {N("u32"), N("str")}, y \in {N("u32"), N("unit")} }
L2Inner == { t \in L1 : t.k \in {"slice", "tup1", "ref", "Pair", "array", "tup2"} /\ t.a[1].k \in {"u32", "str", "Bytes", "Unit"} /\ (Len(t.a) = 1 \/ t.a[2].k \in {"u32", "str"}) }
L2 == { U1(c, x) : c \in {"tup1", "Pair", "array", "ref", "slice", "Gen2"}, x \in L2Inner } \cup { U2("tup2", N("u32"), x) : x \in L2Inner }
Types == Atoms \cup L1 \cup L2
Traits == {"Sized", "Copy", "Clone", "Tuple", "FnPtr"}
\* explicit impls a configuration may contain
\*   cu : impl Copy for u32 / bool      lu : impl Clone for u32 / bool
\*   cr : impl<'a, T> Copy for &'a T    lr : impl<'a, T> Clone for &'a T
\*   cs : impl Copy for Unit            lp : impl<T> Clone for Pair<T> where T: Clone
Cfgs == SUBSET {"cu", "lu", "cr", "lr", "cs", "lp"}

RECURSIVE Sized(_), CopyLike(_, _, _)
Sized(t) ==
  CASE t.k \in {"u32", "bool", "never", "unit", "array", "ref", "refmut", "ptr", "fn", "En", "Unit", "Gen2"} -> TRUE
    [] t.k \in {"str", "slice", "dyn", "Bytes", "Name"} -> FALSE
    [] t.k = "Wrap" -> Sized(N("Bytes"))
    [] t.k = "tup1" -> Sized(t.a[1])
    [] t.k = "tup2" -> Sized(t.a[2])
    [] t.k = "Pair" -> Sized(t.a[1])
    [] OTHER -> FALSE
\* tr is "Copy" or "Clone"; cfg the explicit impls
CopyLike(tr, t, cfg) ==
  CASE t.k \in {"u32", "bool"} -> (IF tr = "Copy" THEN "cu" ELSE "lu") \in cfg
    [] t.k = "ref" -> (IF tr = "Copy" THEN "cr" ELSE "lr") \in cfg
    [] t.k = "unit" -> TRUE
    [] t.k = "tup1" -> CopyLike(tr, t.a[1], cfg)
    [] t.k = "tup2" -> CopyLike(tr, t.a[1], cfg) /\ CopyLike(tr, t.a[2], cfg)
    [] t.k = "array" -> CopyLike(tr, t.a[1], cfg)
    [] t.k = "fn" -> TRUE
    [] t.k = "Unit" -> tr = "Copy" /\ "cs" \in cfg
    [] t.k = "Pair" -> tr = "Clone" /\ "lp" \in cfg /\ CopyLike("Clone", t.a[1], cfg)
    [] OTHER -> FALSE
Holds(tr, t, cfg) ==
  CASE tr = "Sized" -> Sized(t)
    [] tr \in {"Copy", "Clone"} -> CopyLike(tr, t, cfg)
    [] tr = "Tuple" -> t.k \in {"unit", "tup1", "tup2"}
    [] OTHER -> t.k = "fn"

VARIABLES cfg, t
Init == cfg \in Cfgs /\ t \in Types
Next == UNCHANGED <<cfg, t>>
Spec == Init /\ [][Next]_<<cfg, t>>
\* sanity of the rules: Copy implies Clone is *not* required by chalk; a type is a Tuple or FnPtr by shape only
ShapeOnly == (Holds("Tuple", t, cfg) = Holds("Tuple", t, {})) /\ (Holds("FnPtr", t, cfg) = Holds("FnPtr", t, {})) /\ (Holds("Sized", t, cfg) = Holds("Sized", t, {}))
Monotone == \A c2 \in Cfgs : cfg \subseteq c2 => \A tr \in Traits : Holds(tr, t, cfg) => Holds(tr, t, c2)
Replay == PrintT(<<"REPLAY", ToJson([cfg |-> cfg, t |-> t, v |-> [tr \in Traits |-> Holds(tr, t, cfg)]])>>)
=============================================================================
