-------------------------- MODULE SLGGroundTrace --------------------------
(***************************************************************************)
(* Lock-step trace validation for propositional programs: every event of   *)
(* the real engine (normalised by lib/ground.py: fingerprints replaced by  *)
(* goal names) must be EQUAL to the event SLGGround computes from the      *)
(* program, and a step of SLG.tla.  Trace layout: Reset, Program{..},      *)
(* then per public call Op{kind, goal} ... OpEnd{class}.                   *)
(***************************************************************************)
EXTENDS SLGGround, Json, IOUtils, TLCExt

VARIABLES l, cur

Rec == ndJsonDeserialize(IOEnv.TRACE)
Range(f) == {f[i] : i \in DOMAIN f}

NoCur == [kind |-> "none", goal |-> "", k |-> 0]
NoProg == [id |-> 0, clauses |-> <<>>, co |-> {}, goals |-> <<>>]

TraceInit == SLGInit /\ l = 1 /\ cur = NoCur /\ prog = NoProg

ResetAll ==
  /\ tables' = <<>> /\ clock' = 0 /\ stack' = <<>> /\ pc' = "idle" /\ held' = <<>>
  /\ exitRes' = "none" /\ stT' = 0 /\ stA' = 0
  /\ lastRes' = [res |-> "none", amb |-> FALSE]
  /\ op' = NoOp /\ lost' = <<>>

TraceNext ==
  /\ l <= Len(Rec)
  /\ l' = l + 1
  /\ LET e == Rec[l] IN
     CASE e.ev = "Reset" -> ResetAll /\ cur' = NoCur /\ prog' = NoProg
       [] e.ev = "Program" ->
            /\ prog' = [id |-> e.id, clauses |-> e.clauses, co |-> Range(e.co), goals |-> e.goals]
            /\ UNCHANGED <<slgvars, cur>>
       [] e.ev = "Op" ->
            /\ cur' = [kind |-> e.kind, goal |-> e.goal, k |-> 0]
            /\ Step(e) /\ UNCHANGED prog
       [] e.ev = "Panic" ->
            \* a database callback panicked: only table construction calls the database here
            /\ \E c \in Candidates(cur) : c.ev = "TableNew"
            /\ Step(e) /\ UNCHANGED <<prog, cur>>
       [] OTHER ->
            /\ e \in Candidates(cur)          \* lock-step: exactly the event the model computes
            /\ Step(e) /\ UNCHANGED <<prog, cur>>

TraceSpec == TraceInit /\ [][TraceNext]_<<slgvars, prog, l, cur>>

TraceAccepted ==
  LET d == TLCGet("stats").diameter IN
  IF d - 1 = Len(Rec) THEN TRUE
  ELSE Print(<<"TRACE-REJECTED at event", d, IF d <= Len(Rec) THEN Rec[d] ELSE "eof",
               "expected one of", IF d <= Len(Rec) THEN "see state" ELSE "">>, FALSE)

TraceInv == SLGTypeInv
=============================================================================
