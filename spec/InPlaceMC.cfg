SPECIFICATION Spec
CONSTANTS
  MaxN = 4
INVARIANTS NoUB NoDoubleDrop NoDoubleFree SuccessDropsNothingEarly FailedExact SucceededExact ResultIntact Replay
CHECK_DEADLOCK TRUE
