------------------------------- MODULE Orphan -------------------------------
(* C20.  Two independent definitions over the same bounded universe of impl headers:        *)
(*  - OrphanOK: Rust's orphan rule as the property states it;                                *)
(*  - ClauseOK: the verdict of chalk's encoding -- `forall<params> LocalImplAllowed(TraitRef)` *)
(*    decided with the clauses that TraitDatum / AdtDatum / match_ty generate                *)
(*    (program_clauses.rs, clauses.rs), one operator per clause head.                        *)
(* TLC checks that they agree on every impl header and prints the verdict table that the     *)
(* real orphan_check() must reproduce.                                                       *)
EXTENDS Integers, Sequences, FiniteSets, TLC

(* type arguments: k = constructor kind, a = arguments                                       *)
(*   "L" local struct, "U" upstream struct, "S" scalar (u32), "T" impl type parameter,       *)
(*   "LG"<x> local generic struct, "UG"<x> upstream generic struct,                          *)
(*   "F"<x> #[upstream] #[fundamental] struct, "Tup"(x, y) tuple                             *)
Leaf(k) == [k |-> k, a |-> <<>>]
Un(k, x) == [k |-> k, a |-> <<x>>]
Tup(x, y) == [k |-> "Tup", a |-> <<x, y>>]

Leaves == { Leaf(k) : k \in {"L", "U", "S", "T"} }
Unaries == { Un(k, x) : k \in {"LG", "UG", "F"}, x \in Leaves }
Deep == { Un("F", x) : x \in { Un("F", y) : y \in Leaves } \cup { Un("UG", y) : y \in {Leaf("L"), Leaf("T")} } }
        \cup { Un("UG", Un("F", y)) : y \in {Leaf("L"), Leaf("T")} }
Tuples == { Tup(x, y) : x, y \in Leaves } \cup { Tup(Leaf("S"), Un("F", Leaf("L"))), Tup(Un("UG", Leaf("T")), Leaf("S")),
                                                   Tup(Leaf("U"), Un("UG", Leaf("T"))) }
Args == Leaves \cup Unaries \cup Deep \cup Tuples

RECURSIVE HasParam(_), IsLocalTy(_), FullyVisibleC(_), IsLocalC(_)

(* ------------------------------- the orphan rule ------------------------------------ *)
HasParam(t) == t.k = "T" \/ \E i \in DOMAIN t.a : HasParam(t.a[i])
\* local, looking through fundamental type constructors
IsLocalTy(t) == CASE t.k \in {"L", "LG"} -> TRUE
                  [] t.k = "F" -> IsLocalTy(t.a[1])
                  [] OTHER -> FALSE
OrphanOK(traitLocal, args) ==
  traitLocal \/ \E i \in 1 .. Len(args) : IsLocalTy(args[i]) /\ \A j \in 1 .. i - 1 : ~HasParam(args[j])

(* ------------------------------ chalk's clause encoding ------------------------------ *)
\* fully_visible_program_clauses (ADTs): IsFullyVisible(Foo<T..>) :- IsFullyVisible(T)..
\* match_ty: IsFullyVisible(scalar).   IsFullyVisible((T0..Tn)) :- IsFullyVisible(Ti) for all i.
\* no clause for a placeholder (impl parameter under `forall`).
FullyVisibleC(t) == CASE t.k = "T" -> FALSE
                      [] OTHER -> \A i \in DOMAIN t.a : FullyVisibleC(t.a[i])
\* AdtDatum: IsLocal(Foo<..>) if not #[upstream]; upstream fundamental: IsLocal(F<T>) :- IsLocal(T);
\* nothing for other upstream types, scalars, tuples, placeholders.
IsLocalC(t) == CASE t.k \in {"L", "LG"} -> TRUE
                 [] t.k = "F" -> IsLocalC(t.a[1])
                 [] OTHER -> FALSE
\* TraitDatum: local trait: LocalImplAllowed(..) fact; upstream trait, for each i:
\*   LocalImplAllowed(Self: Tr<P1..>) :- IsFullyVisible(P0..P(i-1)), IsLocal(Pi)
ClauseOK(traitLocal, args) ==
  traitLocal \/ \E i \in 1 .. Len(args) : IsLocalC(args[i]) /\ \A j \in 1 .. i - 1 : FullyVisibleC(args[j])

Headers(n) == [local : BOOLEAN, args : [1 .. n -> Args]]
EncodingCorrect(h) == ClauseOK(h.local, h.args) = OrphanOK(h.local, h.args)
==============================================================================
