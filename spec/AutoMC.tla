------------------------------- MODULE AutoMC -------------------------------
(* C05 at the first-order level: auto traits over structs, enums, generic ADTs and the        *)
(* built-in type constructors.  A program declares two auto traits AT1, AT2, three closed      *)
(* ADTs S1..S3, two generic ADTs G<T>, H<T> (H is an enum: its fields are spread over two       *)
(* variants), a #[phantom_data] Ph<T>, a foreign type F, and explicit impls                     *)
(*      impl  ATk for <head> [where <wc>: ATk]        impl !ATk for <head>                       *)
(* with heads/where-clauses that are patterns over one parameter T.  Meaning (the property's    *)
(* statement): `t: ATk` holds iff an explicit positive impl applies and its where-clause holds,  *)
(* or no explicit or negative impl is provided for t's type constructor and every constituent    *)
(* of t satisfies ATk (fn pointers: always; foreign types, placeholders: never), cyclic          *)
(* requirements counting as satisfied = the GREATEST fixed point over the types reachable from   *)
(* the goal.  TLC computes the truth of a list of goal types per program; the real solvers are   *)
(* asked the same goals, as one history on one solver instance.                                  *)
EXTENDS Integers, Sequences, FiniteSets, TLC, Json, IOUtils

\* a type: [c |-> constructor, a |-> sequence of argument types];  "T" is the pattern variable
N(c) == [c |-> c, a |-> <<>>]
U(c, x) == [c |-> c, a |-> <<x>>]
B(c, x, y) == [c |-> c, a |-> <<x, y>>]

VARIABLE prog
\* prog: [fields: [S1, S2, S3, G, H1, H2 -> Seq(type pattern)],
\*        impls: Seq([tr, pos, head, wc]) (wc = <<>> or <<[tr, ty]>>), goals: Seq([tr, ty, hyp: Seq([tr, ty])])]
Inputs == ndJsonDeserialize(IOEnv.INPUTS)

RECURSIVE Subst(_, _)
Subst(p, x) == IF p.c = "T" THEN x ELSE [p EXCEPT !.a = [i \in DOMAIN p.a |-> Subst(p.a[i], x)]]

\* does pattern p match the ground type t?  returns [ok, x] (x = the value of T, or N("none"))
RECURSIVE MatchP(_, _, _)
MatchP(p, t, b) ==
  IF ~b.ok THEN b
  ELSE IF p.c = "T" THEN (IF b.x.c = "none" THEN [ok |-> TRUE, x |-> t] ELSE [ok |-> b.x = t, x |-> b.x])
  ELSE IF p.c # t.c \/ Len(p.a) # Len(t.a) THEN [ok |-> FALSE, x |-> b.x]
  ELSE LET RECURSIVE K(_, _)
           K(i, bb) == IF i > Len(p.a) THEN bb ELSE K(i + 1, MatchP(p.a[i], t.a[i], bb))
       IN K(1, b)
Match(p, t) == MatchP(p, t, [ok |-> TRUE, x |-> N("none")])

ToSet(s) == { s[i] : i \in DOMAIN s }

\* constituent types as clauses.rs computes them
Constituents(p, t) ==
  CASE t.c \in {"S1", "S2", "S3"} -> ToSet(p.fields[t.c])
    [] t.c = "G" -> { Subst(f, t.a[1]) : f \in ToSet(p.fields.G) }
    [] t.c = "H" -> { Subst(f, t.a[1]) : f \in ToSet(p.fields.H1) \cup ToSet(p.fields.H2) }
    [] t.c \in {"Ph", "slice", "array", "ref", "mref", "raw"} -> { t.a[1] }
    [] t.c = "tup" -> { t.a[1], t.a[2] }
    [] OTHER -> {}

\* impl_provided_for: an explicit or negative impl of this trait for the same type constructor
Provided(p, tr, t) == \E i \in DOMAIN p.impls : p.impls[i].tr = tr /\ p.impls[i].head.c = t.c
\* explicit positive impls that apply to t: the set of where-clause instances (a set of sets of atoms <<trait, type>>)
Applicable(p, tr, t) ==
  { IF p.impls[i].wc = <<>> THEN {} ELSE { <<p.impls[i].wc[1].tr, Subst(p.impls[i].wc[1].ty, Match(p.impls[i].head, t).x)>> } :
      i \in { j \in DOMAIN p.impls : p.impls[j].tr = tr /\ p.impls[j].pos /\ Match(p.impls[j].head, t).ok } }

NoAuto(t) == t.c \in {"F", "P", "Q", "dyn"}
AutoBody(p, tr, t) == { <<tr, c>> : c \in Constituents(p, t) }
Deps(p, at) == UNION Applicable(p, at[1], at[2]) \cup
               (IF Provided(p, at[1], at[2]) \/ NoAuto(at[2]) \/ at[2].c = "fn" THEN {} ELSE AutoBody(p, at[1], at[2]))
RECURSIVE Reach(_, _, _)
Reach(p, S, n) == LET S1 == S \cup UNION { Deps(p, at) : at \in S } IN IF n = 0 \/ S1 = S THEN S ELSE Reach(p, S1, n - 1)

Step(p, at, Y, hyp) ==
  \/ at \in hyp
  \/ \E w \in Applicable(p, at[1], at[2]) : w \subseteq Y
  \/ /\ ~Provided(p, at[1], at[2])
     /\ ~NoAuto(at[2])
     /\ (at[2].c = "fn" \/ AutoBody(p, at[1], at[2]) \subseteq Y)
RECURSIVE Gfp(_, _, _, _)
Gfp(p, Y, hyp, n) == LET Y1 == { at \in Y : Step(p, at, Y, hyp) } IN IF n = 0 \/ Y1 = Y THEN Y ELSE Gfp(p, Y1, hyp, n - 1)
\* the meaning of `if (hyp) { t: ATtr }`
HoldsAuto(p, tr, t, hyp) == LET R == Reach(p, {<<tr, t>>}, 40) IN <<tr, t>> \in Gfp(p, R, hyp, Cardinality(R) + 1)

\* the least fixed point, for comparison: where it differs the goal rests on cyclic requirements
RECURSIVE Lfp(_, _, _, _, _)
Lfp(p, R, X, hyp, n) == LET X1 == X \cup { at \in R : Step(p, at, X, hyp) } IN IF n = 0 \/ X1 = X THEN X ELSE Lfp(p, R, X1, hyp, n - 1)
Cyclic(p, tr, t, hyp) == LET R == Reach(p, {<<tr, t>>}, 40) IN
   (<<tr, t>> \in Gfp(p, R, hyp, Cardinality(R) + 1)) # (<<tr, t>> \in Lfp(p, R, {}, hyp, Cardinality(R) + 1))

Init == \E k \in DOMAIN Inputs : prog = Inputs[k]
Next == UNCHANGED prog
Spec == Init /\ [][Next]_prog

HypOf(g) == { <<g.hyp[i].tr, g.hyp[i].ty>> : i \in DOMAIN g.hyp }
\* design-level laws of the meaning
\* (1) an explicit impl without where-clause decides positively; a negative impl (and no positive one) decides negatively
ExplicitDecides ==
  \A i \in DOMAIN prog.goals : LET g == prog.goals[i] IN
     /\ ({} \in Applicable(prog, g.tr, g.ty)) => HoldsAuto(prog, g.tr, g.ty, HypOf(g))
     /\ (Provided(prog, g.tr, g.ty) /\ Applicable(prog, g.tr, g.ty) = {} /\ <<g.tr, g.ty>> \notin HypOf(g)) => ~HoldsAuto(prog, g.tr, g.ty, HypOf(g))
\* (2) without any impl for the constructor: holds iff all constituents hold (the fixed-point equation)
FixedPointEquation ==
  \A i \in DOMAIN prog.goals : LET g == prog.goals[i] IN
     (~Provided(prog, g.tr, g.ty) /\ ~NoAuto(g.ty) /\ g.ty.c # "fn" /\ <<g.tr, g.ty>> \notin HypOf(g) /\ Applicable(prog, g.tr, g.ty) = {}) =>
        (HoldsAuto(prog, g.tr, g.ty, HypOf(g)) <=> \A c \in Constituents(prog, g.ty) : HoldsAuto(prog, g.tr, c, HypOf(g)))
\* (3) the auto traits are independent unless a where-clause links them: impls of the other trait do not matter
NoCross == \A i \in DOMAIN prog.impls : prog.impls[i].wc = <<>> \/ prog.impls[i].wc[1].tr = prog.impls[i].tr
Independent ==
  NoCross => \A i \in DOMAIN prog.goals : LET g == prog.goals[i]
       q == [prog EXCEPT !.impls = SelectSeq(prog.impls, LAMBDA im : im.tr = g.tr)] IN
     HoldsAuto(prog, g.tr, g.ty, { h \in HypOf(g) : h[1] = g.tr }) = HoldsAuto(q, g.tr, g.ty, { h \in HypOf(g) : h[1] = g.tr })

Replay == PrintT(<<"REPLAY", ToJson([id |-> prog.id,
             truth |-> [i \in DOMAIN prog.goals |-> HoldsAuto(prog, prog.goals[i].tr, prog.goals[i].ty, HypOf(prog.goals[i]))],
             cyclic |-> [i \in DOMAIN prog.goals |-> Cyclic(prog, prog.goals[i].tr, prog.goals[i].ty, HypOf(prog.goals[i]))]])>>)
=============================================================================
