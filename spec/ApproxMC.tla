------------------------------ MODULE ApproxMC ------------------------------
(* C11: what an interrupted solve may return.  A solution is abstracted to what it CLAIMS about *)
(* the set S of solutions of the goal (substitutions are abstracted to one of two patterns, g0   *)
(* more general than g1, or a third pattern h incomparable with g1):                             *)
(*    None          S = {}                                                                       *)
(*    Unique(g)     S = instances of g, and g is the only answer                                  *)
(*    Definite(g)   every element of S is an instance of g            (ambiguous, definite)       *)
(*    Suggested(g)  nothing is claimed (g is a hint)                  (ambiguous, suggested)      *)
(*    Unknown       nothing is claimed                                                            *)
(* `Approx(r, f)`: r is an admissible result of a solve that was cut short when the full answer  *)
(* is f: r = f, or r is ambiguous and claims nothing that f does not imply.  TLC checks that     *)
(* this is a preorder with Unknown and Suggested(_) at the bottom, that an interrupted result    *)
(* never claims more than the full one (Sound), and prints the table the driver judges real      *)
(* interrupted solves with.                                                                       *)
EXTENDS Naturals, Sequences, FiniteSets, TLC, Json

Pats == {"g0", "g1", "h"}                 \* g1 is an instance of g0; h and g1 are unrelated; h is an instance of g0
Inst(a, b) == a = b \/ b = "g0"            \* a is an instance of b
Sols == {[kind |-> "None", s |-> "-"], [kind |-> "Unknown", s |-> "-"]}
        \cup {[kind |-> k, s |-> p] : k \in {"Unique", "Definite", "Suggested"}, p \in Pats}

\* the set-theoretic content over a universe of four points: x1 (instance of g1 and g0), xh (of h and g0), x0 (of g0 only),
\* y (of none of the patterns)
Pts == {"x1", "xh", "x0", "y"}
InstPt(x, p) == x # "y" /\ (p = "g0" \/ (p = "g1" /\ x = "x1") \/ (p = "h" /\ x = "xh"))
\* the solution sets a claim is compatible with
Compatible(c) ==
  CASE c.kind = "None" -> {{}}
    [] c.kind = "Unique" -> {{x \in Pts : InstPt(x, c.s)}}
    [] c.kind = "Definite" -> {S \in SUBSET Pts : \A x \in S : InstPt(x, c.s)}
    [] OTHER -> SUBSET Pts

Ambiguous(c) == c.kind \in {"Definite", "Suggested", "Unknown"}
Approx(r, f) == r = f \/ (Ambiguous(r) /\ Compatible(f) \subseteq Compatible(r))

VARIABLES r, f
Init == r \in Sols /\ f \in Sols
Next == UNCHANGED <<r, f>>
Spec == Init /\ [][Next]_<<r, f>>

\* an admissible interrupted result does not contradict the full answer: every solution set the full answer allows, it allows too
Sound == Approx(r, f) => Compatible(f) \subseteq Compatible(r)
Reflexive == Approx(r, r)
Transitive == \A m \in Sols : (Approx(r, m) /\ Approx(m, f)) => Approx(r, f)
Bottom == Approx([kind |-> "Unknown", s |-> "-"], f) /\ \A p \in Pats : Approx([kind |-> "Suggested", s |-> p], f)
\* never stronger: an interrupted solve cannot turn an ambiguous full answer into a definite claim the full answer does not make
NeverStronger == (Approx(r, f) /\ r # f /\ r.kind = "Definite") => (f.kind \in {"None", "Unique", "Definite"} /\ (f.kind # "None" => Inst(f.s, r.s)))
Replay == PrintT(<<"REPLAY", ToJson([r |-> r, f |-> f, ok |-> Approx(r, f)])>>)
=============================================================================
