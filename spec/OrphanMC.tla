------------------------------ MODULE OrphanMC ------------------------------
EXTENDS Orphan, Json, IOUtils
CONSTANTS NArgs, Stride, Offset      \* print a REPLAY record for every Stride-th header starting at Offset (0 = none)
VARIABLES h, n
Init == h \in Headers(NArgs) /\ n = 0
Next == UNCHANGED <<h, n>>
Spec == Init /\ [][Next]_<<h, n>>
Correct == EncodingCorrect(h)
RECURSIVE Hash(_)
Hash(t) == (CASE t.k = "L" -> 1 [] t.k = "U" -> 2 [] t.k = "S" -> 3 [] t.k = "T" -> 4 [] t.k = "LG" -> 5 [] t.k = "UG" -> 6 [] t.k = "F" -> 7 [] OTHER -> 8)
           + 11 * (IF Len(t.a) >= 1 THEN Hash(t.a[1]) ELSE 0) + 131 * (IF Len(t.a) >= 2 THEN Hash(t.a[2]) ELSE 0)
HHash == (IF h.local THEN 1 ELSE 0) + 7 * Hash(h.args[1]) + 1009 * (IF NArgs >= 2 THEN Hash(h.args[2]) ELSE 0)
         + 100003 * (IF NArgs >= 3 THEN Hash(h.args[3]) ELSE 0)
Replay == (Stride > 0 /\ HHash % Stride = Offset) =>
            PrintT(<<"REPLAY", ToJson([local |-> h.local, args |-> h.args, ok |-> OrphanOK(h.local, h.args)])>>)
=============================================================================
