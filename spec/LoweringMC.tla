------------------------------ MODULE LoweringMC ------------------------------
(* C24: parsing and lowering never crash.  Two enumerations:                                   *)
(*  Mode "names": a fixed set of declarations (structs of arity 0 / 1 with type, lifetime and   *)
(*   const parameters, traits of arity 0 / 1, a trait with an associated type, a foreign type)  *)
(*   and ONE use site -- an impl header, a field, an associated type value, a where-clause, a    *)
(*   projection, a goal -- whose type and trait references are built from names that are         *)
(*   declared or not, of the right or wrong kind, applied to 0..2 arguments of every kind.       *)
(*   Resolve says whether name resolution succeeds (Ok) or must be reported (Err): unknown       *)
(*   name, kind mismatch, wrong arity, wrong parameter kind, parameters applied to a parameter.  *)
(*  Mode "tokens": every sequence of up to MaxTokens tokens of the grammar's vocabulary.         *)
(* The implementation must return Ok or Err on every input -- never panic; Resolve is the       *)
(* prediction of which one (a mismatch is reported as information, a panic as a violation).      *)
EXTENDS Integers, Sequences, FiniteSets, TLC, Json

CONSTANTS Mode, MaxTokens, Stride, Offset

\* names usable in type position and what they are
TyNames == {"S0", "S1", "SL", "SC", "Tr0", "F", "Undef", "T", "N", "u32"}
TrNames == {"Tr0", "Tr1", "TrA", "S0", "Undef", "T"}
\* argument lists: sequences of up to 2 arguments, each a type / lifetime / const / a name that is a const parameter
Arg == {"u32", "'static", "3", "S0", "N", "Undef"}
ArgLists == {<<>>} \cup { <<x>> : x \in Arg } \cup { <<x, y>> : x \in {"u32", "'static", "3"}, y \in {"u32", "S0"} }
ArgKind(x) == CASE x \in {"u32", "S0"} -> "ty" [] x = "'static" -> "lt" [] x \in {"3", "N"} -> "const" [] OTHER -> "unknown"
\* declared parameter kinds
ParamsOf(n) == CASE n = "S0" -> <<>> [] n = "S1" -> <<"ty">> [] n = "SL" -> <<"lt">> [] n = "SC" -> <<"const">>
                 [] n = "Tr0" -> <<>> [] n = "Tr1" -> <<"ty">> [] n = "TrA" -> <<>> [] n = "F" -> <<>> [] OTHER -> <<>>
ArgsOk(n, args) == Len(args) = Len(ParamsOf(n)) /\ \A i \in DOMAIN args : ArgKind(args[i]) = ParamsOf(n)[i]
\* a type reference [n, args] inside an item that declares the parameters T (type) and N (const)
TyOk(n, args) ==
  CASE n \in {"S0", "S1", "SL", "SC"} -> ArgsOk(n, args)
    [] n = "u32" -> args = <<>>
    [] n = "T" -> args = <<>>                    \* parameters cannot be applied
    [] n = "F" -> args = <<>>
    [] OTHER -> FALSE                            \* trait as type, const parameter as type, undeclared
TrOk(n, args) == n \in {"Tr0", "Tr1", "TrA"} /\ ArgsOk(n, args)

Sites == {"impl", "field", "assocval", "where", "projection", "goal", "normalize"}
VARIABLES site, ty, tr, toks
Uses == [n : TyNames, args : ArgLists]
TUses == [n : TrNames, args : ArgLists]
RECURSIVE H(_)
H(s) == IF s = <<>> THEN 7 ELSE (H(Tail(s)) * 31 + (CASE Head(s) = "u32" -> 1 [] Head(s) = "'static" -> 2 [] Head(s) = "3" -> 3 [] Head(s) = "S0" -> 5 [] Head(s) = "N" -> 11 [] OTHER -> 13)) % 100003
NH(n) == CASE n = "S0" -> 1 [] n = "S1" -> 2 [] n = "SL" -> 3 [] n = "SC" -> 5 [] n = "Tr0" -> 7 [] n = "F" -> 11 [] n = "Undef" -> 13 [] n = "T" -> 17 [] n = "N" -> 19
            [] n = "u32" -> 23 [] n = "Tr1" -> 29 [] n = "TrA" -> 31 [] OTHER -> 37
Chosen == Stride = 1 \/ (NH(ty.n) * 7 + H(ty.args) * 3 + NH(tr.n) * 5 + H(tr.args)) % Stride = Offset

Vocabulary == <<"struct", "trait", "impl", "for", "where", "type", "fn", "enum", "dyn", "forall", "exists", "if", "not", "const", "extern", "opaque",
                "Foo", "T", "'a", "'static", "3", "u32", "{", "}", "(", ")", "<", ">", "[", "]", ",", ";", ":", "=", "->", "&", "*", "!", "#", "+", "::", "_", "as", "mut", "for<'a>">>
TokSeqs(k) == UNION { [1 .. n -> 1 .. Len(Vocabulary)] : n \in 1 .. k }

Init == IF Mode = "names"
        THEN site \in Sites /\ ty \in Uses /\ tr \in TUses /\ toks = <<>> /\ Chosen
        ELSE site = "tokens" /\ ty = [n |-> "u32", args |-> <<>>] /\ tr = [n |-> "Tr0", args |-> <<>>] /\ toks \in TokSeqs(MaxTokens)
Next == UNCHANGED <<site, ty, tr, toks>>
Spec == Init /\ [][Next]_<<site, ty, tr, toks>>

\* does the use site resolve?  (sites that do not mention the trait reference ignore it)
UsesTr == site \in {"impl", "where", "goal"}
Resolve == TyOk(ty.n, ty.args) /\ (UsesTr => TrOk(tr.n, tr.args))
\* an undeclared or wrongly applied name can never make the site resolve
Consistent == Mode = "names" => ((ty.n \in {"Undef", "Tr0", "N"}) => ~Resolve)
Replay == PrintT(<<"REPLAY", IF Mode = "names" THEN ToJson([site |-> site, ty |-> ty, tr |-> tr, ok |-> Resolve])
                             ELSE ToJson([toks |-> [i \in DOMAIN toks |-> Vocabulary[toks[i]]]])>>)
=============================================================================
