------------------------------- MODULE MiniMC -------------------------------
(* The first-order fragment of C01 / C02 / C03 / C04 / C06 / C28: programs of structs A, B,    *)
(* V<_>, two traits (each ordinary or #[coinductive]), impls                                    *)
(*      impl      Tr for V^d<S>    [where V^e<S'>: Tr'],  S, S' closed structs, e <= d          *)
(*      impl<X>   Tr for V^d<X>    [where V^e<X>: Tr'],  e <= d                                  *)
(* and, for C06, supertrait declarations `trait T1: T2` / `trait T2: T1`.                        *)
(* Meaning: ground instances of the impls over the types V^k<A|B|P> (P = the opaque type a       *)
(* `forall` goal introduces), least fixed point for ordinary and greatest for coinductive        *)
(* traits (no mixed cycles), hypotheses of `if` added as facts together with what they imply     *)
(* through supertraits.  Because where-clauses never mention a larger type than the impl head,   *)
(* the truth of an atom depends only on atoms of smaller-or-equal types: the bounded model is    *)
(* exact.  For each (program, goal) TLC prints the truth value (closed goals) or the set of      *)
(* solutions within the bound (goals with unknowns); the real solvers' answers are judged        *)
(* against them.                                                                                 *)
EXTENDS Integers, Sequences, FiniteSets, TLC, Json, IOUtils

CONSTANTS D,            \* depth bound of the Herbrand universe
          FromFile      \* programs are read from env INPUTS (ndjson) -- the driver samples the family

Bases == {"A", "B", "C", "E", "P", "Q"}
Types == [d : 0 .. D, b : Bases]
Closed == { t \in Types : t.b \notin {"P", "Q"} }
Traits == {1, 2, 3}

\* impl: [tr, d, b \in {"A","B","C","E","X"}, wc: 0 (none) or trait number, e, wb]: the where-clause is `V^e<X>: T<wc>` for a generic
\* impl (b = "X", e <= d) and `V^e<wb>: T<wc>` (a closed type, e <= d) otherwise
VARIABLES prog, gi
\* prog: [impls: Seq(impl), co: SUBSET Traits, super: SUBSET (Traits \X Traits)]   (<<s, t>>: trait s has supertrait t)

Inputs == ndJsonDeserialize(IOEnv.INPUTS)
ToSet(s) == { s[i] : i \in DOMAIN s }
ProgOf(r) == [impls |-> r.impls, co |-> ToSet(r.co), super |-> { <<r.super[i][1], r.super[i][2]>> : i \in DOMAIN r.super }]

(* ground instances: head atom and body atoms of impl im at parameter value x (a type) *)
Inst(im, x) ==
  IF im.b = "X"
  THEN [head |-> <<im.tr, [d |-> im.d + x.d, b |-> x.b]>>,
        body |-> IF im.wc = 0 THEN {} ELSE {<<im.wc, [d |-> im.e + x.d, b |-> x.b]>>}]
  ELSE [head |-> <<im.tr, [d |-> im.d, b |-> im.b]>>,
        body |-> IF im.wc = 0 THEN {} ELSE {<<im.wc, [d |-> im.e, b |-> im.wb]>>}]
GroundClauses(p) ==
  UNION { IF p.impls[i].b = "X"
          THEN { Inst(p.impls[i], x) : x \in { t \in Types : t.d + p.impls[i].d <= D } }
          ELSE { Inst(p.impls[i], [d |-> 0, b |-> "A"]) } : i \in DOMAIN p.impls }
Atoms == Traits \X Types

(* hypotheses: a set of atoms assumed; elaborated through supertraits (FromEnv closure) *)
RECURSIVE Elab(_, _, _)
Elab(p, hyps, n) == IF n = 0 THEN hyps ELSE
  Elab(p, hyps \cup UNION { { <<st[2], h[2]>> : st \in { s \in p.super : s[1] = h[1] } } : h \in hyps }, n - 1)

(* Meaning: mu over ordinary traits of nu over coinductive traits *)
Holds(cl, M) == cl.body \subseteq M
RECURSIVE Nu(_, _, _, _, _), Mu(_, _, _, _)
Nu(p, cls, X, Y, n) ==
  LET Y1 == { a \in Y : \E cl \in cls : cl.head = a /\ Holds(cl, X \cup Y) } IN
  IF n = 0 \/ Y1 = Y THEN Y ELSE Nu(p, cls, X, Y1, n - 1)
CoAtoms(p) == { a \in Atoms : a[1] \in p.co }
Mu(p, cls, X, n) ==
  LET Y == IF p.co = {} THEN {} ELSE Nu(p, cls, X, CoAtoms(p), Cardinality(Atoms) + 1)
      X1 == X \cup { a \in Atoms \ CoAtoms(p) : \E cl \in cls : cl.head = a /\ Holds(cl, X \cup Y) } IN
  IF n = 0 \/ X1 = X THEN X ELSE Mu(p, cls, X1, n - 1)
\* supertrait declarations also oblige impls (WF), but the solver does not check that; the meaning of
\* `T: Tr` is given by the impls and hypotheses alone
Model(p, hyps) ==
  LET cls == GroundClauses(p) \cup { [head |-> h, body |-> {}] : h \in Elab(p, hyps, 3) }
      X == Mu(p, cls, {}, Cardinality(Atoms) + 1)
  IN X \cup Nu(p, cls, X, CoAtoms(p), Cardinality(Atoms) + 1)

\* no cycle through both an ordinary and a coinductive trait (decided on the trait dependency graph: conservative)
TDep(p) == { <<p.impls[i].tr, p.impls[i].wc>> : i \in { j \in DOMAIN p.impls : p.impls[j].wc # 0 } }
RECURSIVE TReach(_, _, _)
TReach(p, S, n) == IF n = 0 THEN S ELSE TReach(p, S \cup { e[2] : e \in { d \in TDep(p) : d[1] \in S } }, n - 1)
TAfter(p, t) == TReach(p, { e[2] : e \in { d \in TDep(p) : d[1] = t } }, 3)
NoMixedCycles(p) == \A s \in Traits, t \in Traits : (t \in TAfter(p, s) /\ s \in TAfter(p, t)) => ((s \in p.co) = (t \in p.co))

(* ---------------------------------- goals -------------------------------------------- *)
\* closed goals: truth value; open goals (one unknown X ranging over the closed types): solution set
Ty(d, b) == [d |-> d, b |-> b]
P0 == Ty(0, "P")
GoalNames == <<"A: T1", "V<B>: T2", "V<V<A>>: T1", "not { A: T1 }", "not { V<B>: T2 }",
               "forall<X> { X: T1 }", "forall<X> { V<X>: T2 }",
               "forall<X> { if (X: T2) { X: T1 } }", "forall<X> { if (X: T1) { V<X>: T2 } }", "forall<X> { if (X: T2) { V<V<X>>: T1 } }",
               "forall<X> { if (X: T1; X: T2) { V<X>: T1 } }",
               "exists<X> { X: T1 }", "exists<X> { V<X>: T2 }", "exists<X> { X: T1, X: T2 }", "exists<X> { X: T1, V<X>: T2 }",
               "exists<X> { X = V<A>, X: T1 }", "exists<X> { V<X>: T1, not { A: T2 } }", "exists<X> { V<V<X>>: T1 }",
               "exists<X> { X: T2 }", "exists<X> { X: T3 }",
               "forall<X, Y> { if (X: T1; Y: T2) { X: T3 } }", "forall<X, Y> { if (X: T1; Y: T2) { Y: T3 } }",
               "forall<X, Y> { if (X: T1; Y: T2) { X: T2 } }", "forall<X> { X: T3 }", "forall<X> { if (X: T3) { X: T1 } }">>
Q0 == Ty(0, "Q")
IsClosedGoal(i) == i <= 11 \/ i >= 21
ClosedTruth(p, i) ==
  LET M == Model(p, {}) IN
  CASE i = 1 -> <<1, Ty(0, "A")>> \in M
    [] i = 2 -> <<2, Ty(1, "B")>> \in M
    [] i = 3 -> <<1, Ty(2, "A")>> \in M
    [] i = 4 -> <<1, Ty(0, "A")>> \notin M
    [] i = 5 -> <<2, Ty(1, "B")>> \notin M
    [] i = 6 -> <<1, P0>> \in M
    [] i = 7 -> <<2, Ty(1, "P")>> \in M
    [] i = 8 -> <<1, P0>> \in Model(p, {<<2, P0>>})
    [] i = 9 -> <<2, Ty(1, "P")>> \in Model(p, {<<1, P0>>})
    [] i = 10 -> <<1, Ty(2, "P")>> \in Model(p, {<<2, P0>>})
    [] i = 11 -> <<1, Ty(1, "P")>> \in Model(p, {<<1, P0>>, <<2, P0>>})
    [] i = 21 -> <<3, P0>> \in Model(p, {<<1, P0>>, <<2, Q0>>})
    [] i = 22 -> <<3, Q0>> \in Model(p, {<<1, P0>>, <<2, Q0>>})
    [] i = 23 -> <<2, P0>> \in Model(p, {<<1, P0>>, <<2, Q0>>})
    [] i = 24 -> <<3, P0>> \in M
    [] OTHER -> <<1, P0>> \in Model(p, {<<3, P0>>})
Up(t, k) == Ty(t.d + k, t.b)
Solutions(p, i) ==
  LET M == Model(p, {}) IN
  CASE i = 12 -> { t \in Closed : <<1, t>> \in M }
    [] i = 13 -> { t \in Closed : t.d + 1 <= D /\ <<2, Up(t, 1)>> \in M }
    [] i = 14 -> { t \in Closed : <<1, t>> \in M /\ <<2, t>> \in M }
    [] i = 15 -> { t \in Closed : t.d + 1 <= D /\ <<1, t>> \in M /\ <<2, Up(t, 1)>> \in M }
    [] i = 16 -> { t \in {Ty(1, "A")} : <<1, t>> \in M }
    [] i = 17 -> { t \in Closed : t.d + 1 <= D /\ <<1, Up(t, 1)>> \in M /\ <<2, Ty(0, "A")>> \notin M }
    [] i = 18 -> { t \in Closed : t.d + 2 <= D /\ <<1, Up(t, 2)>> \in M }
    [] i = 19 -> { t \in Closed : <<2, t>> \in M }
    [] OTHER -> { t \in Closed : <<3, t>> \in M }
\* the largest depth at which the solution set of goal i is known completely
SolDepth(i) == CASE i \in {13, 15, 17} -> D - 1 [] i = 18 -> D - 2 [] OTHER -> D

Init == /\ \E k \in DOMAIN Inputs : prog = ProgOf(Inputs[k])
        /\ gi \in 1 .. Len(GoalNames)
Next == UNCHANGED <<prog, gi>>
Spec == Init /\ [][Next]_<<prog, gi>>

FamilyOK == NoMixedCycles(prog)
\* the meaning is a model: closed under the clauses, and supported (every true atom has a true clause body)
ModelClosed == LET M == Model(prog, {}) IN \A cl \in GroundClauses(prog) : cl.body \subseteq M => cl.head \in M
ModelSupported == LET M == Model(prog, {}) IN \A a \in M : \E cl \in GroundClauses(prog) : cl.head = a /\ cl.body \subseteq M
Replay == PrintT(<<"REPLAY", ToJson([impls |-> prog.impls, co |-> prog.co, super |-> prog.super, gi |-> gi, goal |-> GoalNames[gi],
                                     mixed |-> ~NoMixedCycles(prog),
                                     closed |-> IsClosedGoal(gi),
                                     truth |-> IF IsClosedGoal(gi) THEN ClosedTruth(prog, gi) ELSE FALSE,
                                     sols |-> IF IsClosedGoal(gi) THEN {} ELSE Solutions(prog, gi),
                                     soldepth |-> SolDepth(gi)])>>)
=============================================================================
