SPECIFICATION Spec
CONSTANTS
  MaxOps = 2
  Kinds = {"solve"}
  MaxStop = 0
  MaxPanic = 0
  MaxEvents = 400
  NegGoals = FALSE
  PanicPlans = FALSE
INVARIANTS TypeOK ResultsCorrect InterruptSafe BoundedWork Replay
CHECK_DEADLOCK TRUE
