-------------------------------- MODULE WfMC --------------------------------
(* C21: well-formedness checking guarantees the bounds it lets code assume.                     *)
(* Program family (read from env INPUTS, sampled by the driver):                                 *)
(*   trait Hash {}   trait Eq [where Self: Hash] {}                                              *)
(*   struct A {}  struct B {}  struct Set<T> [where T: Hash] {}                                  *)
(*   struct Holder<T, U> [where T: Hash] [where U: Hash] { up to three fields }                  *)
(*   impl Hash for A / B,  impl<T> Hash for Set<T> [where T: Hash],                              *)
(*   impl Eq for A / B,    impl<T> Eq for Set<T> [where T: Hash]                                 *)
(* Meaning over the concrete types A, B, Set<x>, Holder<x, y> (x, y of depth <= 1):              *)
(*   Impl(tr, X)  least fixed point of the impls;  WfTy(X): the declared where-clauses of X's     *)
(*   constructor hold for its arguments and the arguments are well-formed.                       *)
(* Sound(P) is the statement of the property on that universe:                                   *)
(*   (1) every well-formed X with X: Eq satisfies Eq's supertrait bound, and                     *)
(*   (2) every field type of a well-formed Holder<x, y> is well-formed.                          *)
(* Accepts(P) models what the checker demands (struct declarations: field types well-formed      *)
(* under the declared where-clauses; impls: the trait's supertrait bound for the self type        *)
(* under the impl's where-clauses plus the bounds implied by the well-formedness of the header).  *)
(* TLC checks  Accepts(P) => Sound(P);  the real checked_program() must not accept a program      *)
(* with ~Sound(P).                                                                                *)
EXTENDS Integers, Sequences, FiniteSets, TLC, Json, IOUtils

Inputs == ndJsonDeserialize(IOEnv.INPUTS)
VARIABLE p
\* p: [setBound, eqSuper, hashA, hashB, hashSet (0 none / 1 plain / 2 where T: Hash), eqA, eqB, eqSet (0/1/2),
\*     hT, hU (Holder's where-clauses), fields: Seq of field kinds]
FieldKinds == {"SetT", "SetU", "T", "U", "SetA", "SetB", "SetSetT"}

Ty(k, a) == [k |-> k, a |-> a]
A0 == Ty("A", <<>>)  B0 == Ty("B", <<>>)
Small == { A0, B0, Ty("Set", <<A0>>), Ty("Set", <<B0>>) }
Concrete == Small \cup { Ty("Set", <<x>>) : x \in { Ty("Set", <<A0>>), Ty("Set", <<B0>>) } } \cup { Ty("Holder", <<x, y>>) : x \in Small, y \in Small }

RECURSIVE HashOf(_, _), EqOf(_)
\* fuel-bounded least fixed point (types have depth <= 3)
HashOf(X, n) == IF n = 0 THEN FALSE ELSE
  CASE X.k = "A" -> p.hashA [] X.k = "B" -> p.hashB
    [] X.k = "Set" -> (p.hashSet = 1) \/ (p.hashSet = 2 /\ HashOf(X.a[1], n - 1))
    [] OTHER -> FALSE
Hash(X) == HashOf(X, 4)
EqOf(X) == CASE X.k = "A" -> p.eqA [] X.k = "B" -> p.eqB
             [] X.k = "Set" -> (p.eqSet = 1) \/ (p.eqSet = 2 /\ Hash(X.a[1]))
             [] OTHER -> FALSE
RECURSIVE WfTy(_)
WfTy(X) == CASE X.k \in {"A", "B"} -> TRUE
             [] X.k = "Set" -> WfTy(X.a[1]) /\ (p.setBound => Hash(X.a[1]))
             [] OTHER -> WfTy(X.a[1]) /\ WfTy(X.a[2]) /\ (p.hT => Hash(X.a[1])) /\ (p.hU => Hash(X.a[2]))
FieldTy(f, x, y) == CASE f = "SetT" -> Ty("Set", <<x>>) [] f = "SetU" -> Ty("Set", <<y>>) [] f = "T" -> x [] f = "U" -> y
                      [] f = "SetA" -> Ty("Set", <<A0>>) [] f = "SetB" -> Ty("Set", <<B0>>) [] OTHER -> Ty("Set", <<Ty("Set", <<x>>)>>)

Sound1 == \A X \in Concrete : (WfTy(X) /\ EqOf(X) /\ p.eqSuper) => Hash(X)
Sound2 == \A X \in Concrete : (X.k = "Holder" /\ WfTy(X)) => \A i \in DOMAIN p.fields : WfTy(FieldTy(p.fields[i], X.a[1], X.a[2]))
Sound == Sound1 /\ Sound2

(* ------------------------------ the checker's demands -------------------------------- *)
\* symbolic bounds known for the type parameters inside a declaration: a set of parameter names known to be Hash
\* WF of a field type under assumptions `hs` (parameters known to implement Hash)
HashSym(k, hs) == CASE k = "T" -> "T" \in hs [] k = "U" -> "U" \in hs [] k = "A" -> p.hashA [] k = "B" -> p.hashB
                    [] k = "SetT" -> (p.hashSet = 1) \/ (p.hashSet = 2 /\ "T" \in hs)
                    [] OTHER -> FALSE
FieldWfSym(f, hs) ==
  CASE f \in {"T", "U"} -> TRUE
    [] f = "SetT" -> p.setBound => "T" \in hs
    [] f = "SetU" -> p.setBound => "U" \in hs
    [] f = "SetA" -> p.setBound => p.hashA
    [] f = "SetB" -> p.setBound => p.hashB
    [] OTHER -> (p.setBound => "T" \in hs) /\ (p.setBound => HashSym("SetT", hs))
HolderOk == LET hs == (IF p.hT THEN {"T"} ELSE {}) \cup (IF p.hU THEN {"U"} ELSE {}) IN \A i \in DOMAIN p.fields : FieldWfSym(p.fields[i], hs)
\* impl<T> Tr for Set<T> [where T: Hash]: the header type Set<T> is assumed well-formed (implied bound T: Hash if Set declares it)
SetParamHash(wc) == (wc = 2) \/ p.setBound
ImplsOk ==
  /\ (p.eqA /\ p.eqSuper) => p.hashA
  /\ (p.eqB /\ p.eqSuper) => p.hashB
  /\ (p.eqSet # 0 /\ p.eqSuper) => ((p.hashSet = 1) \/ (p.hashSet = 2 /\ SetParamHash(p.eqSet)))
Accepts == HolderOk /\ ImplsOk

Init == \E k \in DOMAIN Inputs : p = Inputs[k]
Next == UNCHANGED p
Spec == Init /\ [][Next]_p
CheckerSound == Accepts => Sound
Replay == PrintT(<<"REPLAY", ToJson([p |-> p, accepts |-> Accepts, sound |-> Sound, sound1 |-> Sound1, sound2 |-> Sound2])>>)
=============================================================================
