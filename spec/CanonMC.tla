------------------------------- MODULE CanonMC -------------------------------
(* C16: canonical forms.  Over an inference state built by one earlier unification (so that   *)
(* unknowns may be unified with each other or bound), Canon(v) numbers the unbound unknowns of *)
(* v by first occurrence (depth first, left to right), replacing each by a bound variable and  *)
(* recording its kind and universe; UCanon compresses the universes in use to 0..k-1 keeping   *)
(* their order.  TLC checks on all pairs of a bounded set of values:                           *)
(*   CanonIffAlpha   Canon(v1) = Canon(v2)  <=>  v1 and v2 differ by a kind- and universe-      *)
(*                   preserving bijective renaming of their unknowns;                          *)
(*   RoundTrip       canonicalising an instance of a canonical form gives it back;             *)
(*   UCanonOrder / UCanonInverse  compression is monotone and undone by the inverse map.       *)
(* The REPLAY records bind the real canonicalize / u_canonicalize / map_from_canonical /       *)
(* instantiate_canonical to these operators.                                                   *)
EXTENDS Unify, Json, SequencesExt

U32 == T("scalar", 4, 0, <<>>)
USZ == T("scalar", 5, 0, <<>>)
VA == T("infer", 0, 0, <<>>)       \* ty, universe 0
VB == T("infer", 10, 0, <<>>)      \* ty, universe 1
VC == T("infer", 30, 0, <<>>)      \* ty, universe 3
VI == T("infer", 1, 1, <<>>)       \* integer unknown
LL == T("linfer", 2, 0, <<>>)      \* lifetime, universe 0
LM == T("linfer", 32, 0, <<>>)     \* lifetime, universe 3
CK == T("cinfer", 3, 0, <<USZ>>)   \* const, universe 0
CN == T("cinfer", 13, 0, <<USZ>>)  \* const, universe 1
Unknowns == {VA, VB, VC, VI, LL, LM, CK, CN}
UnknownKeyOf(t) == <<t.k, t.n>>

Setups == { <<>>, <<VA, VB>>, <<VB, VC>>, <<VA, T("adt", 1, 0, <<VC>>)>>, <<VB, T("ph", 1, 0, <<>>)>>,
            <<T("array", 0, 0, <<U32, CK>>), T("array", 0, 0, <<U32, CN>>)>>, <<VC, VI>> }

Args == Unknowns \cup { U32, T("ph", 1, 0, <<>>), T("ph", 3, 0, <<>>), T("lph", 2, 0, <<>>), Atom("lstatic"), T("cph", 3, 1, <<USZ>>),
                        T("cval", 7, 0, <<USZ>>), T("adt", 1, 0, <<VA>>), T("adt", 1, 0, <<VC>>), T("ref", 0, 0, <<LM, VB>>) }
Values == { T("adt", 2, 0, <<x, y>>) : x \in Args, y \in Args } \cup { T("adt", 3, 0, <<x, y, x>>) : x \in Unknowns, y \in {VA, VC, LL, CN} }

UOfUnknown(w, st) == IF w.k = "linfer" THEN w.n \div 10 ELSE UniOf(w, st.uni)
KindOf(w) == CASE w.k = "linfer" -> "lt" [] w.k = "cinfer" -> "const" [] w.m = 1 -> "int" [] w.m = 2 -> "float" [] OTHER -> "ty"

(* ------------------------------------ Canon ------------------------------------------ *)
IndexIn(seq, x) == IF \E i \in DOMAIN seq : seq[i] = x THEN CHOOSE i \in DOMAIN seq : seq[i] = x ELSE 0
RECURSIVE Go(_, _, _), GoKids(_, _, _, _)
\* returns [t |-> canonical term, seen |-> unknowns met so far in order]
Go(t, st, seen) ==
  LET w == IF IsVar(t) THEN Walk(t, st.s) ELSE t IN
  IF w.k \in {"infer", "linfer", "cinfer"} THEN
     LET key == UnknownKeyOf(w)
         keys == [i \in DOMAIN seen |-> UnknownKeyOf(seen[i])]
         at == IndexIn(keys, key)
         seen1 == IF at = 0 THEN Append(seen, w) ELSE seen
         idx == (IF at = 0 THEN Len(seen1) ELSE at) - 1
     IN [t |-> CASE w.k = "infer" -> T("bound", 0, idx, <<>>)
                 [] w.k = "linfer" -> T("lbound", 0, idx, <<>>)
                 [] OTHER -> T("cbound", 0, idx, w.a),
         seen |-> seen1]
  ELSE LET r == GoKids(w.a, st, seen, 1) IN [t |-> [w EXCEPT !.a = r.a], seen |-> r.seen]
GoKids(kids, st, seen, i) ==
  IF i > Len(kids) THEN [a |-> <<>>, seen |-> seen]
  ELSE LET h == Go(kids[i], st, seen)
           r == GoKids(kids, st, h.seen, i + 1)
       IN [a |-> <<h.t>> \o r.a, seen |-> r.seen]

Canon(v, st) == LET g == Go(v, st, <<>>) IN
  [value |-> g.t, binders |-> [i \in DOMAIN g.seen |-> [kind |-> KindOf(g.seen[i]), u |-> UOfUnknown(g.seen[i], st)]],
   free |-> [i \in DOMAIN g.seen |-> g.seen[i].n]]

(* renaming semantics *)
RECURSIVE UnknownsOf(_, _), Rename(_, _, _)
UnknownsOf(t, st) == LET w == IF IsVar(t) THEN Walk(t, st.s) ELSE t IN
                     IF w.k \in {"infer", "linfer", "cinfer"} THEN {w} ELSE UNION { UnknownsOf(w.a[i], st) : i \in DOMAIN w.a }
Rename(t, st, f) == LET w == IF IsVar(t) THEN Walk(t, st.s) ELSE t IN
                    IF w.k \in {"infer", "linfer", "cinfer"} THEN f[w] ELSE [w EXCEPT !.a = [i \in DOMAIN w.a |-> Rename(w.a[i], st, f)]]
AlphaEq(v1, v2, st) ==
  LET u1 == UnknownsOf(v1, st)  u2 == UnknownsOf(v2, st) IN
  /\ Cardinality(u1) = Cardinality(u2)
  /\ \E f \in [u1 -> u2] :
       /\ \A x, y \in u1 : x # y => f[x] # f[y]
       /\ \A x \in u1 : KindOf(x) = KindOf(f[x]) /\ UOfUnknown(x, st) = UOfUnknown(f[x], st)
       /\ Rename(v1, st, f) = Rename(v2, st, [x \in u2 |-> x])

(* ----------------------------------- UCanon ------------------------------------------ *)
RECURSIVE PhUniverses(_), MapU(_, _)
PhUniverses(t) == (IF t.k \in {"ph", "lph", "cph"} THEN {t.n} ELSE {}) \cup UNION { PhUniverses(t.a[i]) : i \in DOMAIN t.a }
UniversesOf(c) == {0} \cup PhUniverses(c.value) \cup { c.binders[i].u : i \in DOMAIN c.binders }
Rank(u, us) == Cardinality({ x \in us : x < u })
MapU(t, f) == IF t.k \in {"ph", "lph", "cph"} THEN [t EXCEPT !.n = f[t.n], !.a = [i \in DOMAIN t.a |-> MapU(t.a[i], f)]]
              ELSE [t EXCEPT !.a = [i \in DOMAIN t.a |-> MapU(t.a[i], f)]]
UCanon(c) == LET us == UniversesOf(c)  f == [u \in us |-> Rank(u, us)] IN
  [value |-> MapU(c.value, f), binders |-> [i \in DOMAIN c.binders |-> [c.binders[i] EXCEPT !.u = f[c.binders[i].u]]],
   universes |-> Cardinality(us)]
UBack(uc, c) == LET us == UniversesOf(c)  g == [r \in 0 .. Cardinality(us) - 1 |-> CHOOSE u \in us : Rank(u, us) = r] IN
  [value |-> MapU(uc.value, g), binders |-> [i \in DOMAIN uc.binders |-> [kind |-> uc.binders[i].kind, u |-> g[uc.binders[i].u]]]]

(* ------------------------------------ model ------------------------------------------ *)
VARIABLES setup, v
Init == setup \in Setups /\ v \in Values
Next == UNCHANGED <<setup, v>>
Spec == Init /\ [][Next]_<<setup, v>>
St == IF setup = <<>> THEN EmptySt ELSE Solve(<<setup>>, EmptySt)

CanonIffAlpha == \A w \in Values : (Canon(v, St).value = Canon(w, St).value /\ Canon(v, St).binders = Canon(w, St).binders) <=> AlphaEq(v, w, St)
UCanonOrder == LET c == Canon(v, St)  us == UniversesOf(c) IN \A x, y \in us : x < y => Rank(x, us) < Rank(y, us)
UCanonInverse == LET c == Canon(v, St) IN UBack(UCanon(c), c) = [value |-> c.value, binders |-> c.binders]
SetupOk == St.ok
Replay == PrintT(<<"REPLAY", ToJson([setup |-> setup, v |-> v, canon |-> Canon(v, St), ucanon |-> UCanon(Canon(v, St))])>>)
=============================================================================
