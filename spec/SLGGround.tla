---------------------------- MODULE SLGGround ----------------------------
(***************************************************************************)
(* The SLG engine of SLG.tla closed over *propositional* programs: the     *)
(* logical content of every event is computed from the program, so that    *)
(*      Next == \E e \in Candidates : Step(e)                              *)
(* is a complete, deterministic model of chalk-engine on ground goals      *)
(* (Rust requires every impl parameter to occur in the impl header, so a   *)
(* closed goal only ever produces closed subgoals: real runs on closed     *)
(* goals are propositional and this model is in lock-step with them).      *)
(*                                                                         *)
(* A program is [clauses: Seq([head, body: Seq([pos, a])]), co: SUBSET     *)
(* Atoms]; atom "a<i>" stands for `S<i>: T<i>`; T<i> is #[coinductive] iff *)
(* a<i> \in co.  Goal names: "a<i>" = Implemented(S<i>: T<i>), "e<i>" =    *)
(* FromEnv(S<i>: T<i>), "n<i>" = not { S<i>: T<i> }.                       *)
(***************************************************************************)
EXTENDS SLG

VARIABLE prog          \* the program (constant during a behaviour)

Atoms == {"a1", "a2", "a3", "a4"}
EnvOf == [a \in Atoms |-> CASE a = "a1" -> "e1" [] a = "a2" -> "e2" [] a = "a3" -> "e3" [] OTHER -> "e4"]
NotOf == [a \in Atoms |-> CASE a = "a1" -> "n1" [] a = "a2" -> "n2" [] a = "a3" -> "n3" [] OTHER -> "n4"]
QOf   == [a \in Atoms |-> CASE a = "a1" -> "q1" [] a = "a2" -> "q2" [] a = "a3" -> "q3" [] OTHER -> "q4"]
EnvGoals == {EnvOf[a] : a \in Atoms}
QGoals == {QOf[a] : a \in Atoms}
AtomOfQ(g) == CHOOSE a \in Atoms : QOf[a] = g
NotGoals == {NotOf[a] : a \in Atoms}
AtomOfNot(g) == CHOOSE a \in Atoms : NotOf[a] = g

BlankStrand(lits) ==
  [lits |-> lits, flo |-> <<>>, del |-> <<>>, sel |-> 0, selT |-> 0, selA |-> 0, last |-> 0,
   amb |-> FALSE, atime |-> 0, sub |-> "", ncon |-> 0, ref |-> FALSE]

(* create_refinement_strand on a ground answer *)
RefinementStrand(a) ==
  [BlankStrand([i \in 1..Len(a.del) |-> [pos |-> TRUE, g |-> a.del[i]]])
     EXCEPT !.amb = a.amb, !.del = a.del, !.ref = TRUE]
SeqHas(seq, x) == \E i \in 1..Len(seq) : seq[i] = x
\* the elements of `new` that are not in `old`, in order (each once)
RECURSIVE Fresh(_, _)
Fresh(old, new) == IF new = <<>> THEN <<>>
                   ELSE IF SeqHas(old, Head(new)) THEN Fresh(old, Tail(new))
                   ELSE <<Head(new)>> \o Fresh(Append(old, Head(new)), Tail(new))

(* The where-clause `S: T` of an impl is lowered to the condition `ForAll<> { Implemented(S: T) }`
   (chalk-ir/src/cast.rs, Binders<T> -> Goal), a non-domain goal with its own table ("q<i>");
   conditions of custom clauses are used as written.
   Lowering reverses the conditions of a custom clause (chalk-integration/src/lowering.rs: the
   engine selects the LAST literal first), impl where-clauses keep their order. *)
BodyLits(body, viaQ) ==
  [i \in 1..Len(body) |->
     IF viaQ THEN [pos |-> body[i].pos, g |-> QOf[body[i].a]]
     ELSE [pos |-> body[Len(body) + 1 - i].pos, g |-> body[Len(body) + 1 - i].a]]

IsPositive(c) == \A i \in 1..Len(c.body) : c.body[i].pos
SelectClauses(a, P(_)) ==
  LET idx == {i \in 1..Len(prog.clauses) : prog.clauses[i].head = a /\ P(prog.clauses[i])}
      RECURSIVE Build(_)
      Build(i) == IF i > Len(prog.clauses) THEN <<>>
                  ELSE IF i \in idx THEN <<BlankStrand(BodyLits(prog.clauses[i].body, IsPositive(prog.clauses[i])))>> \o Build(i + 1)
                  ELSE Build(i + 1)
  IN Build(1)

(* build_table: Implemented(a) gets the trait's `Implemented :- FromEnv` clause, then the impls
   (clauses without negation, rendered as impls) in declaration order, then the custom
   clauses (clauses with negation) in declaration order.  FromEnv(a) has no clauses (empty
   environment).  not{a} is a non-domain goal: one strand from simplify_goal. *)
InitialStrands(g) ==
  IF g \in Atoms
  THEN <<BlankStrand(<<[pos |-> TRUE, g |-> EnvOf[g]]>>)>>
       \o SelectClauses(g, LAMBDA c : IsPositive(c))
       \o SelectClauses(g, LAMBDA c : ~IsPositive(c))
  ELSE IF g \in NotGoals THEN <<BlankStrand(<<[pos |-> FALSE, g |-> AtomOfNot(g)]>>)>>
  ELSE IF g \in QGoals THEN <<BlankStrand(<<[pos |-> TRUE, g |-> AtomOfQ(g)]>>)>>
  ELSE <<>>

TableNewEvent(g) ==
  [ev |-> "TableNew", table |-> Len(tables), key |-> g, g |-> g,
   co |-> (g \in prog.co \/ (g \in QGoals /\ AtomOfQ(g) \in prog.co)),
   flo |-> FALSE, big |-> FALSE, strands |-> InitialStrands(g)]

HasTable(g) == \E i \in 1..Len(tables) : tables[i].key = g

Ev(name) == [ev |-> name]

(* The events the real engine can emit next, with their content computed from the program.
   Control that SLG.tla computes itself is not duplicated here: Step(e) rejects the
   candidates that do not fit the state. *)
RootGoalOf(o) == o.goal

Candidates(cur) ==       \* cur: the public call in progress [kind, goal, stopAt] (from the plan)
  (IF pc = "idle" /\ op.phase = "stream"
     THEN (IF HasTable(cur.goal) THEN {[ev |-> "Stream", table |-> TableOfKey(cur.goal) - 1]}
           ELSE {TableNewEvent(cur.goal)})
     ELSE {})
  \cup (IF pc = "idle" /\ op.phase = "streamnew" THEN {[ev |-> "Stream", table |-> Len(tables) - 1]} ELSE {})
  \cup (IF pc = "idle" /\ op.kind # "none" /\ stT # 0
        THEN (IF Ph = "loop" THEN {}     \* ground substitutions are empty: make_solution stops here
              ELSE {[ev |-> "RootBegin", table |-> stT - 1, ans |-> stA]})
             \cup {Ev("Advance"), Ev("Stop")}
             \cup {[ev |-> "AggEnd", sol |-> x[1], via |-> x[2], n |-> x[3]] :
                     x \in {<<"None", "first", 0>>, <<"Unknown", "firstquantum", 0>>,
                            <<"Unknown", "peekquantum", 1>>, <<"Unique", "peeknomore", 1>>,
                            <<"Unknown", "trivial", op.n>>}}
             \cup {[ev |-> "Cb", kind |-> k, more |-> m] : k \in {"Definite", "Floundered"}, m \in BOOLEAN}
             \cup {[ev |-> "OpEnd", class |-> c] : c \in {"None", "Unique", "Unknown", "Done", "Stopped"}}
        ELSE {})
  \cup (IF pc = "push0" THEN {[ev |-> "Push", table |-> stT - 1, clock |-> clock + 1]} ELSE {})
  \cup (IF pc = "loop"
        THEN LET i == FirstEligible(TopT, Top.clock) IN
             {[ev |-> "Take", table |-> TopT - 1,
               src |-> IF Top.active # <<>> THEN "active" ELSE IF i # 0 THEN "queue" ELSE "none",
               strand |-> IF Top.active # <<>> THEN Top.active
                          ELSE IF i # 0 THEN <<tables[TopT].strands[i]>> ELSE <<>>]}
        ELSE {})
  \cup (IF pc \in {"select", "selectnew"}
        THEN LET s == held[1] IN
             IF s.sel = 0 /\ s.lits = <<>> THEN {Ev("NotSelected")}
             ELSE IF s.sel = 0 THEN
                  LET g == s.lits[Len(s.lits)].g IN
                  IF HasTable(g) THEN {[ev |-> "Select", idx |-> Len(s.lits), table |-> TableOfKey(g) - 1]}
                  ELSE {TableNewEvent(g)}
             ELSE {}
        ELSE {})
  \cup (IF pc = "selected"
        THEN LET s   == held[1]
                 t   == s.selT + 1
                 lit == s.lits[s.sel]
             IN
             {[ev |-> "Push", table |-> s.selT, clock |-> clock + 1],
              [ev |-> "CycleCo", strand |-> [Deselect(s) EXCEPT !.lits = RemoveAt(s.lits, s.sel),
                                                               !.del = IF SeqHas(s.del, lit.g) THEN s.del
                                                                       ELSE Append(s.del, lit.g)]]}
             \cup (IF ActiveDepth(t) # 0
                   THEN LET d == ActiveDepth(t) IN
                        {[ev |-> "CyclePos",
                          minPos |-> IF lit.pos THEN Min(Top.minPos, stack[d].clock) ELSE Min(Top.minPos, Top.clock),
                          minNeg |-> IF lit.pos THEN Top.minNeg ELSE Min(Top.minNeg, stack[d].clock)]}
                   ELSE {})
             \cup (IF s.selA < Len(tables[t].answers)
                   THEN LET ans == tables[t].answers[s.selA + 1] IN
                        IF lit.pos
                        THEN LET new == Fresh(s.del, ans.del) IN
                             {[ev |-> "Merge", outcome |-> "ok",
                               next |-> IF ans.del # <<>> THEN <<[s EXCEPT !.selA = s.selA + 1]>> ELSE <<>>,
                               strand |-> <<[Deselect(s) EXCEPT
                                   !.lits = RemoveAt(s.lits, s.sel)
                                            \o (IF s.ref THEN [i \in 1..Len(new) |-> [pos |-> TRUE, g |-> new[i]]] ELSE <<>>),
                                   !.amb = s.amb \/ ans.amb,
                                   !.atime = s.atime + 1,
                                   !.del = s.del \o new]>>]}
                        ELSE IF ans.del # <<>>
                             THEN {[ev |-> "NegSkip",
                                    refine |-> IF s.selA \in tables[t].refined THEN <<>> ELSE <<RefinementStrand(ans)>>]}
                             ELSE {[ev |-> "Merge", outcome |-> "negfail", next |-> <<>>, strand |-> <<>>]}
                   ELSE {})
        ELSE {})
  \cup (IF pc = "answer"
        THEN LET s   == held[1]
                 del == IF s.ref THEN <<>>
                        ELSE SelectSeq(s.del, LAMBDA d : d # tables[TopT].key)   \* self-cycle filter
             IN {Ev("Requeue"),
                 [ev |-> "AnswerNew", idx |-> Len(tables[TopT].answers), big |-> FALSE, amb |-> s.amb,
                  trivial |-> (del = <<>>), trivsub |-> TRUE, key |-> del, del |-> del],
                 [ev |-> "AnswerDup", key |-> del]}
        ELSE {})
  \cup (IF pc = "answered"
        THEN {Ev("PopToCaller"), Ev("RootAnswer")}
             \cup (IF Len(stack) = 1
                   THEN LET a == LastAnswer(TopT) IN
                        {[ev |-> "Refine", strand |-> RefinementStrand(a)]}
                   ELSE {})
        ELSE {})
  \cup (IF pc = "refined" THEN {Ev("RootAnswer")} ELSE {})
  \cup (IF pc = "nostrands"
        THEN {Ev("FailRoot"), Ev("FailPos"), Ev("FailNeg"), Ev("SwitchMode"), Ev("NegCycle")}
             \cup (IF tables[TopT].strands # <<>>
                   THEN {[ev |-> "CycleComplete",
                          cleared |-> ClearRec(tables[TopT].strands,
                                               [tables EXCEPT ![TopT].strands = <<>>], <<>>)[2]]}
                   ELSE {})
             \cup (IF Len(stack) > 1 /\ stack[Len(stack) - 1].active # <<>>
                   THEN LET c == stack[Len(stack) - 1]
                            s == c.active[1]
                        IN {[ev |-> "PartOfCycle",
                             minPos |-> IF s.lits[s.sel].pos THEN Min(c.minPos, Top.minPos) ELSE Min(c.minPos, c.clock),
                             minNeg |-> IF s.lits[s.sel].pos THEN Min(c.minNeg, Top.minNeg)
                                        ELSE Min(c.minNeg, Min(Top.minPos, Top.minNeg))]}
                   ELSE {})
        ELSE {})
  \cup (IF pc = "exit"
        THEN (IF stack # <<>> THEN {[ev |-> "DropState", active |-> (Top.active # <<>>)]}
              ELSE LET a == tables[stT].answers IN
                   (IF exitRes = "Answer" /\ a[stA + 1].del # <<>> /\ stA \notin tables[stT].refined
                    THEN {[ev |-> "RefineLate", strand |-> RefinementStrand(a[stA + 1])]} ELSE {})
                   \cup
                   {[ev |-> "RootEnd",
                     res |-> IF exitRes = "Answer"
                             THEN (IF a[stA + 1].del # <<>> THEN "InvalidAnswer" ELSE "Answer")
                             ELSE exitRes,
                     amb |-> IF exitRes = "Answer" /\ a[stA + 1].del = <<>> THEN a[stA + 1].amb ELSE FALSE]})
        ELSE {})
  \cup (IF pc = "panicked" /\ stack # <<>> THEN {[ev |-> "DropState", active |-> (Top.active # <<>>)]} ELSE {})
  \cup (IF pc = "panicked" /\ stack = <<>> THEN {[ev |-> "OpEnd", class |-> "Panic"]} ELSE {})

----------------------------------------------------------------------------
(* The declarative meaning of a propositional program (independent of the engine):
   ordinary atoms by least fixed point, coinductive atoms by greatest fixed point,
   `not` stratified, no cycle mixing inductive and coinductive atoms. *)

DepOf(a) == {b \in Atoms : \E i \in 1..Len(prog.clauses) :
               prog.clauses[i].head = a /\ \E j \in 1..Len(prog.clauses[i].body) : prog.clauses[i].body[j].a = b}
RECURSIVE ReachFrom(_, _)
ReachFrom(S, n) == IF n = 0 THEN S ELSE ReachFrom(S \cup UNION {DepOf(b) : b \in S}, n - 1)
Reach(a) == ReachFrom(DepOf(a), Cardinality(Atoms))           \* atoms reachable in >= 1 step
SCC(a) == {a} \cup {b \in Reach(a) : a \in Reach(b)}
Lower(a) == Reach(a) \ SCC(a)

NegDepOf(a) == {b \in Atoms : \E i \in 1..Len(prog.clauses) :
               prog.clauses[i].head = a /\ \E j \in 1..Len(prog.clauses[i].body) :
                  prog.clauses[i].body[j].a = b /\ ~prog.clauses[i].body[j].pos}
Stratified == \A a \in Atoms : \A b \in NegDepOf(a) : a \notin ({b} \cup Reach(b))
NoMixedCycles == \A a \in Atoms : \A b \in SCC(a) : (a \in prog.co) = (b \in prog.co)

BodyTrue(body, M) == \A j \in 1..Len(body) : (body[j].a \in M) = body[j].pos
Derive(C, M) == {a \in C : \E i \in 1..Len(prog.clauses) :
                    prog.clauses[i].head = a /\ BodyTrue(prog.clauses[i].body, M)}

RECURSIVE Lfp(_, _, _, _)
Lfp(C, Mlow, X, n) == IF n = 0 THEN X ELSE Lfp(C, Mlow, Derive(C, Mlow \cup X), n - 1)
RECURSIVE Gfp(_, _, _, _)
Gfp(C, Mlow, X, n) == IF n = 0 THEN X ELSE Gfp(C, Mlow, Derive(C, Mlow \cup X) \cap X, n - 1)

RECURSIVE Model(_, _, _)
Model(done, M, fuel) ==
  IF done = Atoms \/ fuel = 0 THEN M
  ELSE LET ready == {a \in Atoms \ done : Lower(a) \subseteq done}
           new   == UNION {IF a \in prog.co THEN Gfp(SCC(a), M, SCC(a), Cardinality(SCC(a)) + 1)
                           ELSE Lfp(SCC(a), M, {}, Cardinality(SCC(a)) + 1) : a \in ready}
       IN Model(done \cup ready, M \cup new, fuel - 1)

TrueAtoms == Model({}, {}, Cardinality(Atoms) + 1)
TruthOfGoal(g) == IF g \in Atoms THEN g \in TrueAtoms
                  ELSE IF g \in NotGoals THEN AtomOfNot(g) \notin TrueAtoms
                  ELSE FALSE
=============================================================================
