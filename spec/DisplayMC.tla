------------------------------ MODULE DisplayMC ------------------------------
(* C22: the program space for the print / reparse round trip.  A program is a fixed prelude     *)
(* (traits Tr, Tr2, struct Base) plus ONE item built from a feature vector; TLC enumerates every *)
(* vector of every item kind and prints it; the driver renders it as .chalk text and the real    *)
(* writer + parser are exercised.  The feature vectors mirror what the writer has to reproduce:  *)
(*  adt   : struct / enum / union, flags (upstream, fundamental, phantom_data, one_zst), repr,    *)
(*          generic parameters of every kind, declared variances, where-clauses, fields           *)
(*  trait : flags (auto, marker, upstream, fundamental, non_enumerable, coinductive, object_safe),*)
(*          lang attribute, parameters, supertrait where-clause, associated types (plain, with    *)
(*          bound, generic, with where-clause), a second trait whose associated type has the      *)
(*          same name (name disambiguation) with / without an impl giving it a value              *)
(*  impl  : positive / negative, generic or not, where-clause, associated type value              *)
(*  opaque: opaque type with bounds;  fn: fn definitions with parameters, where-clauses, abi      *)
(* Equivalence demanded of the round trip (checked on the lowered programs): the reparsed program *)
(* equals the original for vectors without a repeated where-clause / equality bound (Exact);      *)
(* for the others only convergence is demanded: rendering the reparsed program reproduces the     *)
(* text, and re-lowering it gives the reparsed program again.                                     *)
EXTENDS Integers, Sequences, FiniteSets, TLC, Json

Adts == [item : {"adt"}, kind : {"struct", "enum", "union"}, upstream : BOOLEAN, fundamental : BOOLEAN, phantom : BOOLEAN, zst : BOOLEAN,
         repr : {"none", "C", "packed", "u32", "C packed"}, params : {"none", "T", "lt T", "const", "T U"}, variance : BOOLEAN,
         wc : {"none", "bound", "two", "outlives", "dup", "aliaseq"}, fields : {"none", "scalar", "param", "ref"}]
AdtOk(a) == /\ (a.fundamental => a.params \in {"T"})                       \* only a single parameter supported
            /\ (a.variance => a.params # "none")
            /\ (a.wc # "none" => a.params \in {"T", "lt T", "T U"})
            /\ (a.wc = "outlives" => a.params = "lt T")
            /\ (a.fields \in {"param"} => a.params \in {"T", "lt T", "T U"})
            /\ (a.fields = "ref" => a.params = "lt T")
            /\ (a.kind = "union" => a.fields # "none")
            /\ ~(a.phantom /\ a.zst)
Traits == [item : {"trait"}, auto : BOOLEAN, marker : BOOLEAN, upstream : BOOLEAN, fundamental : BOOLEAN, nonenum : BOOLEAN, co : BOOLEAN, objsafe : BOOLEAN,
           lang : {"none", "sized", "copy", "clone", "drop", "fn_once", "unsize", "unpin", "coerce_unsized", "tuple_trait", "future"},
           params : {"none", "T", "lt"}, super : BOOLEAN, assoc : {"none", "plain", "bound", "generic", "where", "clash", "clashimpl", "eqbound"}]
TraitOk(t) == /\ (t.auto => t.params = "none" /\ ~t.super /\ t.assoc = "none")
              /\ (t.lang # "none" => t.assoc = "none" /\ ~t.auto /\ t.params = "none" /\ ~t.super)
              /\ (Cardinality({ f \in {"auto", "marker", "upstream", "fundamental", "nonenum", "co", "objsafe"} :
                      CASE f = "auto" -> t.auto [] f = "marker" -> t.marker [] f = "upstream" -> t.upstream [] f = "fundamental" -> t.fundamental
                        [] f = "nonenum" -> t.nonenum [] f = "co" -> t.co [] OTHER -> t.objsafe }) <= 3)
Impls == [item : {"impl"}, neg : BOOLEAN, generic : BOOLEAN, wc : {"none", "bound", "dup"}, value : {"none", "base", "param", "proj"}, self : {"Base", "G", "ref", "tuple", "fn", "dyn", "array"}]
ImplOk(i) == /\ (i.neg => i.value = "none")
             /\ (i.wc # "none" => i.generic)
             /\ (i.value \in {"param", "proj"} => i.generic)
             /\ (i.self = "G" => i.generic)
Others == [item : {"opaque"}, bounds : {"one", "two"}, generic : BOOLEAN, wc : BOOLEAN]
          \cup [item : {"fn"}, generic : BOOLEAN, wc : BOOLEAN, abi : {"none", "C"}, unsafe : BOOLEAN, args : {"none", "one", "two"}, ret : BOOLEAN, variadic : BOOLEAN]
FnOk(f) == f.item = "fn" => ((f.wc => f.generic) /\ (f.variadic => f.abi = "C" /\ f.args # "none"))

VARIABLE v
Init == \/ (v \in Adts /\ AdtOk(v)) \/ (v \in Traits /\ TraitOk(v)) \/ (v \in Impls /\ ImplOk(v)) \/ (v \in Others /\ FnOk(v))
Next == UNCHANGED v
Spec == Init /\ [][Next]_v
\* vectors for which the round trip must reproduce the lowered program exactly
\* (duplicated where-clauses and equality bounds may be normalised; clashing associated-type names are renamed injectively)
Exact == ~(v.item = "adt" /\ v.wc \in {"dup", "aliaseq"}) /\ ~(v.item = "impl" /\ v.wc = "dup") /\ ~(v.item = "trait" /\ v.assoc \in {"eqbound", "clash", "clashimpl"})
Replay == PrintT(<<"REPLAY", ToJson([v |-> v, exact |-> Exact])>>)
TypeOK == v.item \in {"adt", "trait", "impl", "opaque", "fn"}
=============================================================================
