---------------------------- MODULE InPlaceTrace ----------------------------
(* Trace validation for InPlace.tla.  The file named by env TRACE holds, per run of the    *)
(* real code: one "Input" line, the hook / element events in the order they happened, and  *)
(* one "End" line (observed outcome, number of times the watched buffer was freed).        *)
(* A run is accepted iff its event sequence is the log of a behaviour of InPlace.tla for   *)
(* that input; every invariant of InPlace.tla is evaluated at each step.                   *)
EXTENDS InPlace, Json, IOUtils, TLCExt

VARIABLE l                      \* index of the last consumed line

Rec == ndJsonDeserialize(IOEnv.TRACE)

Match(e, r) == e.ev = r.ev /\ (r.i = -1 \/ e.i = r.i)

TraceInit == /\ InitWith(Rec[1].inp) /\ l = 1 /\ TLCSet(42, 1)

SpecStep ==
  /\ ~Done
  /\ Next
  /\ LET d == Len(log') - Len(log) IN
       /\ l + d <= Len(Rec)
       /\ \A j \in 1 .. d : Match(log'[Len(log) + j], Rec[l + j])
       /\ l' = l + d

Outcome == IF pc = "succeeded" THEN "ok" ELSE inp.mode

EndStep ==
  /\ Done /\ l + 1 <= Len(Rec) /\ Rec[l + 1].ev = "End"
  /\ (Rec[l + 1].frees = -1 \/ Rec[l + 1].frees = frees) /\ Rec[l + 1].outcome = Outcome
  /\ IF l + 2 <= Len(Rec)
     THEN LET r == Rec[l + 2].inp IN
          /\ inp' = r
          /\ slot' = [k \in 0 .. r.n - 1 |-> "T"]
          /\ dropsT' = [k \in 0 .. r.n - 1 |-> 0]
          /\ dropsU' = [k \in 0 .. r.n - 1 |-> 0]
          /\ buf' = "caller" /\ frees' = 0 /\ mip' = 0 /\ i' = 0 /\ pc' = "start" /\ bad' = FALSE
          /\ log' = <<>> /\ held' = -1
     ELSE /\ pc' = "accepted" /\ UNCHANGED <<inp, slot, dropsT, dropsU, buf, frees, mip, i, bad, log, held>>
  /\ l' = l + 2

TraceNext == SpecStep \/ EndStep
TraceSpec == TraceInit /\ [][TraceNext]_<<vars, l>>

Progress == TLCSet(42, IF l > TLCGet(42) THEN l ELSE TLCGet(42))

TraceAccepted ==
  LET m == TLCGet(42) IN
  IF m >= Len(Rec) + 1 THEN TRUE
  ELSE Print(<<"TRACE-REJECTED at event", m + 1, IF m + 1 <= Len(Rec) THEN Rec[m + 1] ELSE "eof">>, FALSE)
=============================================================================
