-------------------------------- MODULE LogDb --------------------------------
(* C23: the recording database wrapper (chalk-solve/src/logging_db.rs) as a state machine.     *)
(*   Serve(kind, id)   the wrapper hands an item of the inner database to a solver; as          *)
(*                     implemented it records the id (impls_for_trait records every impl it     *)
(*                     returns);                                                                *)
(*   Emit(...)         `Display`: every recorded item is printed in full, every item referenced *)
(*                     by a printed one but not recorded is printed as a stub.                  *)
(* EmitCoversServed: whatever was served is printed (an item the solver saw cannot be missing   *)
(* from the logged program).  The trace specification checks this on the real wrapper: the      *)
(* Serve events are logged by the inner database, the Emit event lists what the printed text    *)
(* declares.  The end-to-end statement of the property (same answers on the re-parsed text) is  *)
(* checked by the driver on the same runs.                                                      *)
EXTENDS Integers, Sequences, FiniteSets, TLC

VARIABLES recorded,   \* set of <<kind, id>>
          names,      \* set of <<kind, name>> of the served structs / traits
          emitted     \* [done, structs, traits, nimpls]
lvars == <<recorded, names, emitted>>

NotEmitted == [done |-> FALSE, structs |-> {}, traits |-> {}, nimpls |-> 0]
LInit == recorded = {} /\ names = {} /\ emitted = NotEmitted
Serve(kind, id, name) ==
  /\ ~emitted.done
  /\ recorded' = recorded \cup {<<kind, id>>}
  /\ names' = IF kind \in {"adt", "trait"} THEN names \cup {<<kind, name>>} ELSE names
  /\ UNCHANGED emitted
ServedImpls == { r \in recorded : r[1] = "impl" }
Emit(structs, traits, nimpls) ==
  /\ ~emitted.done
  /\ \A n \in names : (n[1] = "adt" => n[2] \in structs) /\ (n[1] = "trait" => n[2] \in traits)
  /\ nimpls >= Cardinality(ServedImpls)
  /\ emitted' = [done |-> TRUE, structs |-> structs, traits |-> traits, nimpls |-> nimpls]
  /\ UNCHANGED <<recorded, names>>
Reset == /\ recorded' = {} /\ names' = {} /\ emitted' = NotEmitted
==============================================================================
