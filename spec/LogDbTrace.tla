----------------------------- MODULE LogDbTrace -----------------------------
(* Trace validation for LogDb.tla: events Serve{kind,id,name}, Emit{structs,traits,nimpls}, Reset. *)
EXTENDS LogDb, Json, IOUtils, TLCExt
VARIABLE l
Rec == ndJsonDeserialize(IOEnv.TRACE)
ToSet(s) == { s[i] : i \in DOMAIN s }
TraceInit == LInit /\ l = 1
TraceNext ==
  /\ l <= Len(Rec) /\ l' = l + 1
  /\ LET e == Rec[l] IN
     CASE e.ev = "Serve" -> Serve(e.kind, e.id, e.name)
       [] e.ev = "Emit" -> Emit(ToSet(e.structs), ToSet(e.traits), e.nimpls)
       [] e.ev = "Reset" -> Reset
       [] OTHER -> FALSE
TraceSpec == TraceInit /\ [][TraceNext]_<<lvars, l>>
TraceAccepted ==
  LET d == TLCGet("stats").diameter IN
  IF d - 1 = Len(Rec) THEN TRUE
  ELSE Print(<<"TRACE-REJECTED at event", d, IF d <= Len(Rec) THEN Rec[d] ELSE "eof">>, FALSE)
=============================================================================
