-------------------------------- MODULE Unify --------------------------------
(* Declarative first-order unification over Terms.tla, as the meaning that C14 / C15 / C18 /  *)
(* C29 refer to: two terms are unifiable iff some assignment of their unknowns makes them      *)
(* equal while respecting kinds (general / integer / float unknowns) and universes (an unknown *)
(* of universe u may only be assigned terms whose placeholders live in universes <= u).        *)
(*                                                                                             *)
(* Unknowns: infer / cinfer (universe = n \div 10 by convention of the bounded models) and the *)
(* bound variables of a clause head (no universe restriction).  Lifetimes never make           *)
(* unification fail (they only produce outlives constraints), an alias or an error type on     *)
(* either side never fails either (an AliasEq goal is produced).                               *)
EXTENDS Terms

VarKinds == {"infer", "cinfer", "bound", "cbound"}
IsVar(t) == t.k \in VarKinds
Key(t) == <<t.k, t.n, IF t.k \in {"bound", "cbound"} THEN t.m ELSE 0>>
UOfVar(t) == IF t.k \in {"infer", "cinfer"} THEN t.n \div 10 ELSE 99
IntScalars == {3, 4, 5, 8, 9}
FloatScalars == {6, 7}
MaxU == 99

\* a substitution is a function from keys to terms; uni overrides the universe of a key
Bound(s, t) == IsVar(t) /\ Key(t) \in DOMAIN s
RECURSIVE Walk(_, _)
Walk(t, s) == IF Bound(s, t) THEN Walk(s[Key(t)], s) ELSE t

RECURSIVE OccursIn(_, _, _), PhMaxU(_, _), VarsOf(_, _), Resolve(_, _)
OccursIn(v, t, s) ==
  LET w == Walk(t, s) IN
  IF IsVar(w) THEN Key(w) = Key(v)
  ELSE IF w.k \in ConstVarKinds THEN FALSE
  ELSE \E i \in DOMAIN w.a : OccursIn(v, w.a[i], s)
\* the largest universe of a (type or const) placeholder inside t; lifetimes are related, not assigned
PhMaxU(t, s) ==
  LET w == Walk(t, s) IN
  IF w.k \in {"ph", "cph"} THEN w.n
  ELSE IF IsLt(w) \/ w.k \in ConstVarKinds THEN 0
  ELSE LET RECURSIVE Mx(_)
           Mx(i) == IF i = 0 THEN 0 ELSE LET x == PhMaxU(w.a[i], s) y == Mx(i - 1) IN IF x > y THEN x ELSE y
       IN Mx(Len(w.a))
\* unbound unknowns occurring in t
VarsOf(t, s) ==
  LET w == Walk(t, s) IN
  IF IsVar(w) THEN {w}
  ELSE IF IsLt(w) \/ w.k \in ConstVarKinds THEN {}
  ELSE UNION { VarsOf(w.a[i], s) : i \in DOMAIN w.a }
\* t with every bound unknown replaced by its value
Resolve(t, s) ==
  LET w == Walk(t, s) IN
  IF IsVar(w) \/ w.k \in ConstVarKinds THEN w ELSE [w EXCEPT !.a = [i \in DOMAIN w.a |-> Resolve(w.a[i], s)]]

UniOf(v, uni) == IF Key(v) \in DOMAIN uni THEN uni[Key(v)] ELSE UOfVar(v)

KindOK(v, t) ==
  CASE v.k \in {"cinfer", "cbound"} -> IsConst(t)
    [] v.k = "bound" -> IsTy(t)
    [] v.m = 0 -> IsTy(t)
    [] v.m = 1 -> (t.k = "scalar" /\ t.n \in IntScalars) \/ (t.k = "infer" /\ t.m \in {0, 1})
    [] OTHER   -> (t.k = "scalar" /\ t.n \in FloatScalars) \/ (t.k = "infer" /\ t.m \in {0, 2})

Ext(f, k, v) == [x \in DOMAIN f \cup {k} |-> IF x = k THEN v ELSE f[x]]
Min(a, b) == IF a < b THEN a ELSE b

\* binding v := t: occurs check, universe check on placeholders, promotion of the unknowns of t
BindOK(v, t, st) == ~OccursIn(v, t, st.s) /\ KindOK(v, t) /\ PhMaxU(t, st.s) <= UniOf(v, st.uni)
Bind(v, t, st) ==
  LET u == UniOf(v, st.uni)
      vs == VarsOf(t, st.s)
      uni1 == [k \in DOMAIN st.uni \cup { Key(w) : w \in vs } |->
                 IF \E w \in vs : Key(w) = k /\ UniOf(w, st.uni) > u THEN u
                 ELSE IF k \in DOMAIN st.uni THEN st.uni[k] ELSE UOfVar(CHOOSE w \in vs : Key(w) = k)]
  IN [ok |-> TRUE, s |-> Ext(st.s, Key(v), t), uni |-> uni1]

FailSt == [ok |-> FALSE, s |-> <<>>, uni |-> <<>>]
SameHead(a, b) ==
  /\ a.k = b.k /\ Len(a.a) = Len(b.a)
  /\ CASE a.k \in {"adt", "scalar", "proj", "opaque", "fnptr", "ph", "cph", "cval"} -> a.n = b.n /\ (a.k \in {"ph", "cph"} => a.m = b.m)
       [] a.k \in {"ref", "raw"} -> a.m = b.m
       [] OTHER -> TRUE

(* Solve(eqs, st): eqs is a sequence of pairs still to be made equal *)
RECURSIVE Solve(_, _)
Solve(eqs, st) ==
  IF eqs = <<>> THEN st
  ELSE
    LET a == Walk(eqs[1][1], st.s)  b == Walk(eqs[1][2], st.s)  rest == Tail(eqs) IN
    IF IsLt(a) \/ IsLt(b) THEN Solve(rest, st)                         \* lifetimes: constraints only
    ELSE IF a = b THEN Solve(rest, st)
    ELSE IF IsVar(a) /\ IsVar(b) THEN
         \* a general unknown is bound to the more specific one
         IF a.k = "infer" /\ b.k = "infer" /\ a.m # b.m /\ a.m # 0 /\ b.m # 0 THEN FailSt
         ELSE IF a.k = "infer" /\ b.k = "infer" /\ a.m # 0 /\ b.m = 0
              THEN (IF BindOK(b, a, st) THEN Solve(rest, Bind(b, a, st)) ELSE FailSt)
              ELSE (IF BindOK(a, b, st) THEN Solve(rest, Bind(a, b, st)) ELSE FailSt)
    ELSE IF (a.k \in {"proj", "opaque"} \/ b.k \in {"proj", "opaque"}) /\ IsTy(a) /\ IsTy(b) THEN Solve(rest, st)   \* AliasEq goal
    ELSE IF IsVar(a) THEN (IF BindOK(a, b, st) THEN Solve(rest, Bind(a, b, st)) ELSE FailSt)
    ELSE IF IsVar(b) THEN (IF BindOK(b, a, st) THEN Solve(rest, Bind(b, a, st)) ELSE FailSt)
    ELSE IF a.k = "error" \/ b.k = "error" THEN Solve(rest, st)
    ELSE IF a.k \in ConstVarKinds \/ b.k \in ConstVarKinds THEN FailSt     \* cph vs something else
    ELSE IF SameHead(a, b)
         THEN Solve([i \in 1 .. Len(a.a) |-> <<a.a[i], b.a[i]>>] \o rest, st)
         ELSE FailSt

EmptySt == [ok |-> TRUE, s |-> <<>>, uni |-> <<>>]
Unifiable(a, b) == Solve(<<<<a, b>>>>, EmptySt).ok
UnifiableArgs(as, bs) == Len(as) = Len(bs) /\ Solve([i \in 1 .. Len(as) |-> <<as[i], bs[i]>>], EmptySt).ok

(* --------------------- could_match as implemented (chalk-ir/src/could_match.rs) ------- *)
(* Only pairs of the *same* listed constructor can be rejected; lifetimes and constants     *)
(* always match; everything else (variables, placeholders, aliases, dyn, fn pointers,        *)
(* mismatching constructors) "could match".                                                  *)
RECURSIVE CouldMatchAlg(_, _)
CouldMatchAlg(a, b) ==
  IF IsLt(a) \/ IsConst(a) \/ IsLt(b) \/ IsConst(b) THEN TRUE
  ELSE IF a.k # b.k THEN TRUE
  ELSE CASE a.k = "adt" -> a.n = b.n /\ \A i \in DOMAIN a.a : i \in DOMAIN b.a => CouldMatchAlg(a.a[i], b.a[i])
         [] a.k = "scalar" -> a.n = b.n
         [] a.k = "tuple" -> Len(a.a) = Len(b.a) /\ \A i \in DOMAIN a.a : CouldMatchAlg(a.a[i], b.a[i])
         [] a.k = "slice" -> CouldMatchAlg(a.a[1], b.a[1])
         [] a.k = "ref" -> a.m = b.m /\ CouldMatchAlg(a.a[2], b.a[2])
         [] a.k = "raw" -> a.m = b.m /\ CouldMatchAlg(a.a[1], b.a[1])
         [] a.k = "array" -> CouldMatchAlg(a.a[1], b.a[1])
         [] OTHER -> TRUE
==============================================================================
