SPECIFICATION Spec
CONSTANTS
  MaxImpls = 3
  MaxD = 2
  FromFile = FALSE
INVARIANTS Total EqualPrioDisjoint SubsetHigher BoundedDfs
CHECK_DEADLOCK TRUE
