----------------------------- MODULE GuidanceMC -----------------------------
(* TLC takes every pair (cur, new) of canonical substitutions of a bounded set (two generic   *)
(* arguments each) and checks on Guidance.tla:                                                 *)
(*   MergeGeneralizes      both inputs are instances of Merge(cur, new);                        *)
(*   MayInvalidateSound    if may_invalidate says "no", every instance of `new` (every answer   *)
(*                         the pending strand can still produce) is an instance of the current  *)
(*                         guidance, so stopping with it as definite guidance excludes nothing; *)
(* and, in mode "combine", CombineSymmetric / CombineNoStronger on all pairs of solutions.     *)
(* REPLAY records bind merge_into_guidance, may_invalidate and Solution::combine.               *)
EXTENDS Guidance, Json, SequencesExt

CONSTANT Mode      \* "merge" | "combine"
U32 == T("scalar", 4, 0, <<>>)
I32 == T("scalar", 3, 0, <<>>)
USZ == T("scalar", 5, 0, <<>>)
B0 == T("bound", 0, 0, <<>>)
B1 == T("bound", 0, 1, <<>>)
TyArgs == { U32, I32, B0, B1, T("ph", 1, 0, <<>>), T("adt", 1, 0, <<U32>>), T("adt", 1, 0, <<I32>>), T("adt", 1, 0, <<B0>>), T("adt", 2, 0, <<U32>>),
            T("ref", 0, 0, <<Atom("lstatic"), U32>>), T("ref", 0, 0, <<T("lbound", 0, 1, <<>>), U32>>), T("ref", 0, 1, <<Atom("lstatic"), U32>>),
            T("tuple", 0, 0, <<U32, B0>>), T("tuple", 0, 0, <<U32>>), T("slice", 0, 0, <<B1>>),
            T("array", 0, 0, <<U32, T("cval", 1, 0, <<USZ>>)>>), T("array", 0, 0, <<U32, T("cval", 2, 0, <<USZ>>)>>), T("array", 0, 0, <<U32, T("cbound", 0, 1, <<USZ>>)>>),
            T("fnptr", 0, 0, <<U32, U32>>), T("proj", 1, 0, <<U32>>), T("proj", 1, 0, <<I32>>), Atom("str") }
LtArgs == { Atom("lstatic"), T("lph", 1, 0, <<>>), T("lbound", 0, 1, <<>>) }
CArgs == { T("cval", 1, 0, <<USZ>>), T("cval", 2, 0, <<USZ>>), T("cbound", 0, 1, <<USZ>>), T("cph", 1, 0, <<USZ>>) }
\* substitutions for a root goal with binders <ty, X> where X is a type, a lifetime or a constant
Substs == { <<x, y>> : x \in TyArgs, y \in {U32, I32, B0, B1, T("adt", 1, 0, <<B0>>), T("adt", 1, 0, <<U32>>)} }
          \cup { <<x, l>> : x \in {U32, B0, T("adt", 1, 0, <<U32>>), T("ref", 0, 0, <<Atom("lstatic"), U32>>)}, l \in LtArgs }
          \cup { <<x, c>> : x \in {U32, B0, T("array", 0, 0, <<U32, T("cval", 1, 0, <<USZ>>)>>)}, c \in CArgs }
SameSorts(s1, s2) == \A i \in 1 .. 2 : (IsLt(s1[i]) <=> IsLt(s2[i])) /\ (IsConst(s1[i]) <=> IsConst(s2[i]))

\* ground instances of a canonical substitution: its unknowns replaced by closed terms of their sort
GroundTy == { U32, I32, T("adt", 1, 0, <<U32>>) }
RECURSIVE Inst(_, _)
Inst(t, f) == IF t.k = "bound" THEN f[t.m] ELSE IF t.k = "cbound" THEN T("cval", 1 + (f[t.m].n % 2), 0, t.a) ELSE IF t.k = "lbound" THEN Atom("lstatic")
              ELSE [t EXCEPT !.a = [i \in DOMAIN t.a |-> Inst(t.a[i], f)]]
Instances(s) == { [i \in 1 .. 2 |-> Inst(s[i], f)] : f \in [0 .. 1 -> GroundTy] } \cup {s}

Sols == [kind : {"Unique", "Definite", "Suggested"}, s : {1, 2}, triv : {FALSE}] \cup { [kind |-> "Unique", s |-> 3, triv |-> TRUE], [kind |-> "Unknown", s |-> 0, triv |-> FALSE] }

VARIABLES cur, new
Init == IF Mode = "merge" THEN cur \in Substs /\ new \in { s \in Substs : SameSorts(cur, s) }
        ELSE cur \in Sols /\ new \in Sols
Next == UNCHANGED <<cur, new>>
Spec == Init /\ [][Next]_<<cur, new>>

MergeGeneralizes == Mode = "merge" => Instance(cur, Merge(cur, new)) /\ Instance(new, Merge(cur, new))
MayInvalidateSound ==
  Mode = "merge" => (~MayInvalidateAlg(new, cur) => \A n \in Instances(new) : Instance(n, cur))
\* named deviation MI_RepeatedGuidanceVar (slg.rs, `(_, TyKind::BoundVar(_)) => false`): a variable that occurs
\* several times in the guidance claims that those positions are equal, which a future answer can refute
RECURSIVE VarOccs(_, _)
VarOccs(t, key) == (IF Var(t) /\ <<t.k, t.m>> = key THEN 1 ELSE 0) +
                   (LET RECURSIVE S(_) S(i) == IF i = 0 THEN 0 ELSE VarOccs(t.a[i], key) + S(i - 1) IN S(Len(t.a)))
RepeatedVar(g) == \E k \in {"bound", "cbound"}, m \in 0 .. 3 : VarOccs(g[1], <<k, m>>) + VarOccs(g[2], <<k, m>>) >= 2
MayInvalidateSoundUnlessRepeated ==
  Mode = "merge" => ((~MayInvalidateAlg(new, cur) /\ ~RepeatedVar(cur)) => \A n \in Instances(new) : Instance(n, cur))
\* what the property needs from the implementation's check, whatever its algorithm
MustInvalidate == \E n \in Instances(new) : ~Instance(n, cur)
CombineSymmetric == Mode = "combine" => Combine(cur, new) = Combine(new, cur)
CombineNoStronger == Mode = "combine" => NoStronger(Combine(cur, new), cur, new)
Replay == PrintT(<<"REPLAY", IF Mode = "merge"
                             THEN ToJson([cur |-> cur, new |-> new, merged |-> Merge(cur, new), alg |-> MayInvalidateAlg(new, cur), must |-> MustInvalidate, repeated |-> RepeatedVar(cur)])
                             ELSE ToJson([cur |-> cur, new |-> new, combined |-> Combine(cur, new)])>>)
=============================================================================
