--------------------------- MODULE RecGroundMC ---------------------------
(* Model-checking configuration of RecGround: TLC chooses a program of the family file and a    *)
(* history of public calls on ONE recursive solver (solve, or solve_limited with the callback    *)
(* returning false at its k-th consultation); one TLC step per public call.  Invariants:        *)
(*   ResultsCorrect  a completed solve returns what the program means, whatever happened before  *)
(*   InterruptSafe   an interrupted solve returns the full answer or an ambiguous one             *)
(*   CacheSound      every cache entry is the meaning of its goal (nothing provisional, nothing  *)
(*                   computed after an interruption ever reaches the cache)                      *)
(*   GraphEmpty      between public calls the search graph and the stack are empty               *)
(*   NoFuel          the fixed-point loop of every goal ended by itself                          *)
EXTENDS RecGround, GroundMeaning, Json, IOUtils

CONSTANTS MaxOps, MaxStop, NegGoals

VARIABLES prog, plan, st, results
vars == <<prog, plan, st, results>>

Inputs == ndJsonDeserialize(IOEnv.INPUTS)
Range(f) == {f[i] : i \in DOMAIN f}
OpsFor(p) == {[kind |-> "solve", goal |-> g, k |-> 0] : g \in Range(p.goals)}
             \cup {[kind |-> "limited", goal |-> g, k |-> k] : g \in Range(p.goals), k \in 1..MaxStop}
RECURSIVE PlansOf(_, _)
PlansOf(p, n) == IF n = 0 THEN {<<>>}
                 ELSE LET shorter == PlansOf(p, n - 1) IN
                      shorter \cup {<<o>> \o s : o \in OpsFor(p), s \in {x \in shorter : Len(x) = n - 1}}

Truth(g) == IF g \in Atoms THEN g \in MTrueAtoms(prog) ELSE AtomOfNot(g) \notin MTrueAtoms(prog)
TruthVal(g) == IF g \in Atoms \cup NotGoals THEN (IF Truth(g) THEN "U" ELSE "E") ELSE "E"      \* FromEnv goals fail: no environment

Init ==
  /\ \E i \in 1..Len(Inputs) :
       /\ prog = [id |-> Inputs[i].id, clauses |-> Inputs[i].clauses, co |-> Range(Inputs[i].co), goals |-> Inputs[i].goals]
       /\ plan \in PlansOf(prog, MaxOps) \ {<<>>}
  /\ st = InitSolver /\ results = <<>>

Next ==
  \/ /\ plan # <<>>
     /\ LET o == Head(plan)
            r == SolveRoot(prog, st, o.goal, o.k)
        IN /\ st' = r.s
           /\ results' = Append(results, [goal |-> o.goal, kind |-> o.kind, k |-> o.k, v |-> r.v, truth |-> TruthVal(o.goal),
                                          interrupted |-> r.s.intr, ev |-> r.s.ev])
     /\ plan' = Tail(plan) /\ UNCHANGED prog
  \/ plan = <<>> /\ UNCHANGED vars
Spec == Init /\ [][Next]_vars

FamilyOK == MStratified(prog) /\ MNoMixedCycles(prog)
ResultsCorrect == \A i \in 1..Len(results) : ~results[i].interrupted => results[i].v = results[i].truth
InterruptSafe == \A i \in 1..Len(results) : results[i].interrupted => results[i].v \in {results[i].truth, "A", "S"}
CacheSound == \A p \in st.cache : p[2] = TruthVal(p[1])
GraphEmpty == st.graph = <<>> /\ st.stk = <<>>
NoFuel == \A i \in 1..Len(results) : \A j \in 1..Len(results[i].ev) : results[i].ev[j][1] # "FUEL"
Replay == plan = <<>> => PrintT(<<"REPLAY", ToJson([id |-> prog.id, results |-> results, cache |-> st.cache])>>)
=============================================================================
