----------------------------- MODULE SLGTrace -----------------------------
(***************************************************************************)
(* Trace validation: is a recorded execution of the real chalk-engine a    *)
(* behaviour of SLG.tla?  The trace is ndjson (one hook event per line,    *)
(* `Def` events removed, several executions separated by `Reset` events);  *)
(* its path is given in the environment variable TRACE.  All invariants of *)
(* SLG.tla are evaluated at every step of the real execution.              *)
(***************************************************************************)
EXTENDS SLG, Json, IOUtils, TLCExt

VARIABLE l                      \* next event to consume

Rec == ndJsonDeserialize(IOEnv.TRACE)

TraceInit == SLGInit /\ l = 1

TraceNext ==
  /\ l <= Len(Rec)
  /\ l' = l + 1
  /\ IF Rec[l].ev = "Reset"
     THEN /\ tables' = <<>> /\ clock' = 0 /\ stack' = <<>> /\ pc' = "idle" /\ held' = <<>>
          /\ exitRes' = "none" /\ stT' = 0 /\ stA' = 0
          /\ lastRes' = [res |-> "none", amb |-> FALSE]
          /\ op' = NoOp /\ lost' = <<>>
     ELSE Step(Rec[l])

TraceSpec == TraceInit /\ [][TraceNext]_<<slgvars, l>>

\* every line consumed <=> the execution is a behaviour of the specification
TraceAccepted ==
  LET d == TLCGet("stats").diameter IN
  IF d - 1 = Len(Rec) THEN TRUE
  ELSE Print(<<"TRACE-REJECTED at event", d, IF d <= Len(Rec) THEN Rec[d] ELSE "eof">>, FALSE)

TraceInv == SLGTypeInv
=============================================================================
