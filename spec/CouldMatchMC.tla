----------------------------- MODULE CouldMatchMC -----------------------------
(* C18: over a bounded universe of types (clause heads with bound variables, goals with      *)
(* unknowns of every kind and placeholders), TLC checks FilterSound -- every pair that is      *)
(* unifiable (Unify.tla) passes could_match as implemented -- and prints, per term, the set   *)
(* of partners it unifies with; the real could_match must return true for each such pair.     *)
EXTENDS Unify, Json, SequencesExt

U32 == T("scalar", 4, 0, <<>>)
CAtoms == { U32, T("scalar", 3, 0, <<>>), T("scalar", 1, 0, <<>>), T("scalar", 6, 0, <<>>), Atom("str"), Atom("never"),
            T("infer", 0, 0, <<>>), T("infer", 10, 0, <<>>), T("infer", 1, 1, <<>>), T("infer", 2, 2, <<>>),
            T("ph", 0, 0, <<>>), T("ph", 1, 0, <<>>), T("bound", 0, 0, <<>>), T("bound", 0, 1, <<>>), Atom("error"),
            T("proj", 1, 0, <<U32>>) }
CLts == { Atom("lstatic"), T("lph", 1, 0, <<>>), T("linfer", 3, 0, <<>>), T("lbound", 0, 2, <<>>) }
USZ == T("scalar", 5, 0, <<>>)
CConsts == { T("cval", 1, 0, <<USZ>>), T("cval", 2, 0, <<USZ>>), T("cinfer", 4, 0, <<USZ>>), T("cph", 1, 1, <<USZ>>), T("cbound", 0, 3, <<USZ>>) }
CL1(tys) ==
     { T("adt", 1, 0, <<x>>) : x \in tys } \cup { T("adt", 2, 0, <<x>>) : x \in tys }
  \cup { T("adt", 3, 0, <<x, y>>) : x \in tys, y \in {U32, T("scalar", 1, 0, <<>>), T("bound", 0, 0, <<>>), T("infer", 0, 0, <<>>), T("ph", 1, 0, <<>>)} }
  \cup { T("adt", 4, 0, <<l>>) : l \in CLts } \cup { T("adt", 5, 0, <<c>>) : c \in CConsts }
  \cup { T("tuple", 0, 0, <<x>>) : x \in tys } \cup { T("tuple", 0, 0, <<x, U32>>) : x \in tys }
  \cup { T("slice", 0, 0, <<x>>) : x \in tys }
  \cup { T("ref", 0, mu, <<l, x>>) : mu \in {0, 1}, l \in {Atom("lstatic"), T("lph", 1, 0, <<>>), T("lbound", 0, 2, <<>>)}, x \in {U32, T("bound", 0, 0, <<>>), T("infer", 0, 0, <<>>), T("scalar", 1, 0, <<>>)} }
  \cup { T("raw", 0, mu, <<x>>) : mu \in {0, 1}, x \in {U32, T("bound", 0, 0, <<>>), T("scalar", 1, 0, <<>>)} }
  \cup { T("array", 0, 0, <<x, c>>) : x \in {U32, T("bound", 0, 0, <<>>), T("scalar", 1, 0, <<>>)}, c \in CConsts }
  \cup { T("fnptr", 0, 0, <<x, U32>>) : x \in {U32, T("scalar", 1, 0, <<>>), T("bound", 0, 0, <<>>), T("infer", 0, 0, <<>>)} }
CL2 == { T("adt", 1, 0, <<x>>) : x \in { t \in CL1(CAtoms) : t.k \in {"adt", "ref", "tuple"} /\ Len(t.a) = 1 } }
       \cup { T("adt", 3, 0, <<x, x>>) : x \in {T("bound", 0, 0, <<>>), T("infer", 0, 0, <<>>), U32} }
       \cup { T("adt", 3, 0, <<T("adt", 1, 0, <<x>>), x>>) : x \in {T("bound", 0, 0, <<>>), T("infer", 0, 0, <<>>)} }
       \cup { T("adt", 3, 0, <<T("infer", 10, 0, <<>>), T("adt", 1, 0, <<p>>)>>) : p \in {T("ph", 1, 0, <<>>), T("ph", 0, 0, <<>>)} }
CUniverse == CAtoms \cup CL1(CAtoms) \cup CL2
USeq == SetToSeq(CUniverse)
N == Len(USeq)

CONSTANT Mode       \* "types": i ranges over the universe; "lists": i ranges over pairs <<x, y>> of the small universe
Small == { U32, T("scalar", 1, 0, <<>>), T("infer", 0, 0, <<>>), T("infer", 10, 0, <<>>), T("ph", 1, 0, <<>>), T("bound", 0, 0, <<>>), T("bound", 0, 1, <<>>),
           T("adt", 1, 0, <<T("bound", 0, 0, <<>>)>>), T("adt", 1, 0, <<U32>>), T("adt", 1, 0, <<T("infer", 0, 0, <<>>)>>), T("adt", 2, 0, <<U32>>),
           T("ref", 0, 0, <<Atom("lstatic"), T("bound", 0, 0, <<>>)>>) }
LSeq == SetToSeq(Small \X Small)
NL == Len(LSeq)

VARIABLE i
Init == i \in 1 .. (IF Mode = "types" THEN N ELSE NL)
Next == UNCHANGED i
Spec == Init /\ [][Next]_i

ListSound == Mode = "lists" => \A j \in 1 .. NL :
                UnifiableArgs(LSeq[i], LSeq[j]) => (CouldMatchAlg(LSeq[i][1], LSeq[j][1]) /\ CouldMatchAlg(LSeq[i][2], LSeq[j][2]))
ReplayLists == Mode = "lists" => PrintT(<<"REPLAY", ToJson([i |-> i, t |-> LSeq[i], unif |-> { j \in 1 .. NL : UnifiableArgs(LSeq[i], LSeq[j]) }])>>)
FilterSound == Mode = "types" => \A j \in 1 .. N : Unifiable(USeq[i], USeq[j]) => CouldMatchAlg(USeq[i], USeq[j])
Replay == Mode = "types" => PrintT(<<"REPLAY", ToJson([i |-> i, t |-> USeq[i],
                                     unif |-> { j \in 1 .. N : Unifiable(USeq[i], USeq[j]) },
                                     algfalse |-> { j \in 1 .. N : ~CouldMatchAlg(USeq[i], USeq[j]) }])>>)
=============================================================================
