------------------------------- MODULE ImplMC -------------------------------
(* C13 (and a second family for C01/C09): coherent first-order programs with several generic   *)
(* structs.  A program is a SET of impls                                                        *)
(*      impl[<T>] Tr for <head> where <wc1>: Tr1, <wc2>: Tr2                                     *)
(* over the closed structs Z, Y, the generic structs S1<_>, S2<_> and three ordinary traits;    *)
(* heads and where-clause types are patterns over one parameter T (a blanket impl has head T).  *)
(* The meaning of a closed goal `t: Tr` is the least fixed point over the atoms reachable from   *)
(* it -- a function of the set of impls: the order in which TLC (or a file) lists them cannot    *)
(* matter, and `OrderIrrelevant` checks exactly that on the specification side by evaluating     *)
(* the meaning on the reversed list.  `Coherent` is the overlap check the repository applies to  *)
(* programs (no two impls of a trait with unifiable heads): declaration order is only claimed    *)
(* irrelevant for coherent programs.  The real solvers are run on several declaration orders     *)
(* (impls, where-clauses, placement of the declarations) and must answer every goal alike.       *)
EXTENDS Integers, Sequences, FiniteSets, TLC, Json, IOUtils

VARIABLE prog
\* prog: [id, impls: Seq([tr, head, wcs: Seq([tr, ty])]), goals: Seq([tr, ty]) (closed goals), open: Seq(Seq([tr, ty])) (goals with the unknown T)]
Inputs == ndJsonDeserialize(IOEnv.INPUTS)

N(c) == [c |-> c, a |-> <<>>]
RECURSIVE Subst(_, _), MatchP(_, _, _), Unifiable(_, _)
Subst(p, x) == IF p.c = "T" THEN x ELSE [p EXCEPT !.a = [i \in DOMAIN p.a |-> Subst(p.a[i], x)]]
MatchP(p, t, b) ==
  IF ~b.ok THEN b
  ELSE IF p.c = "T" THEN (IF b.x.c = "none" THEN [ok |-> TRUE, x |-> t] ELSE [ok |-> b.x = t, x |-> b.x])
  ELSE IF p.c # t.c \/ Len(p.a) # Len(t.a) THEN [ok |-> FALSE, x |-> b.x]
  ELSE LET RECURSIVE K(_, _)
           K(i, bb) == IF i > Len(p.a) THEN bb ELSE K(i + 1, MatchP(p.a[i], t.a[i], bb))
       IN K(1, b)
Match(p, t) == MatchP(p, t, [ok |-> TRUE, x |-> N("none")])
\* two heads (each with its own parameter, all constructors at most unary) have a common instance
Unifiable(p, q) == p.c = "T" \/ q.c = "T" \/ (p.c = q.c /\ Len(p.a) = Len(q.a) /\ \A i \in DOMAIN p.a : Unifiable(p.a[i], q.a[i]))

Coherent(p) == \A i, j \in DOMAIN p.impls : (i < j /\ p.impls[i].tr = p.impls[j].tr) => ~Unifiable(p.impls[i].head, p.impls[j].head)

\* bodies of the impls that apply to the atom <<tr, t>>: a set of sets of atoms
Bodies(p, at) ==
  { { <<p.impls[i].wcs[k].tr, Subst(p.impls[i].wcs[k].ty, Match(p.impls[i].head, at[2]).x)>> : k \in DOMAIN p.impls[i].wcs } :
      i \in { j \in DOMAIN p.impls : p.impls[j].tr = at[1] /\ Match(p.impls[j].head, at[2]).ok } }
RECURSIVE Reach(_, _, _), Lfp(_, _, _, _)
Reach(p, S, n) == LET S1 == S \cup UNION { UNION Bodies(p, at) : at \in S } IN IF n = 0 \/ S1 = S THEN S ELSE Reach(p, S1, n - 1)
Lfp(p, R, X, n) == LET X1 == X \cup { at \in R : \E b \in Bodies(p, at) : b \subseteq X } IN IF n = 0 \/ X1 = X THEN X ELSE Lfp(p, R, X1, n - 1)
Holds(p, tr, t) == LET R == Reach(p, {<<tr, t>>}, 60) IN <<tr, t>> \in Lfp(p, R, {}, Cardinality(R) + 1)

Reverse(s) == [i \in DOMAIN s |-> s[Len(s) + 1 - i]]

Init == \E k \in DOMAIN Inputs : prog = Inputs[k]
Next == UNCHANGED prog
Spec == Init /\ [][Next]_prog

FamilyCoherent == Coherent(prog)
OrderIrrelevant ==
  LET q == [prog EXCEPT !.impls = Reverse([i \in DOMAIN prog.impls |-> [prog.impls[i] EXCEPT !.wcs = Reverse(@)]])] IN
  \A i \in DOMAIN prog.goals : Holds(prog, prog.goals[i].tr, prog.goals[i].ty) = Holds(q, prog.goals[i].tr, prog.goals[i].ty)
\* a coherent program decides a closed goal through at most one impl
OneImplApplies ==
  \A i \in DOMAIN prog.goals : Cardinality({ j \in DOMAIN prog.impls : prog.impls[j].tr = prog.goals[i].tr /\ Match(prog.impls[j].head, prog.goals[i].ty).ok }) <= 1
(* goals with one unknown: `exists<T> { c1, c2, .. }` with conjuncts [tr, ty] whose types are patterns over T.  The solutions among the
   closed types of depth <= 3 (where-clauses never mention a larger type than the head, so membership is decided exactly) *)
Closed0 == {N("Z"), N("Y")}
Wrap(S) == S \cup {[c |-> k, a |-> <<t>>] : k \in {"S1", "S2"}, t \in S}
Universe == Wrap(Wrap(Wrap(Closed0)))
SolsOf(p, conj) == { t \in Universe : \A i \in DOMAIN conj : Holds(p, conj[i].tr, Subst(conj[i].ty, t)) }
Replay == PrintT(<<"REPLAY", ToJson([id |-> prog.id, truth |-> [i \in DOMAIN prog.goals |-> Holds(prog, prog.goals[i].tr, prog.goals[i].ty)],
                                     sols |-> [k \in DOMAIN prog.open |-> SolsOf(prog, prog.open[k])]])>>)
=============================================================================
