------------------------------- MODULE TermsMC -------------------------------
(* Bounded universes of terms and the REPLAY records for C26 (flags) and C25 (binder        *)
(* operations).  TLC takes one term per behaviour (Init), evaluates the laws as invariants   *)
(* and prints what the implementation must compute for that term.                           *)
EXTENDS Terms, Json

CONSTANTS Mode,          \* "flags" | "binders"
          Stride, Offset \* print every term whose hash is Offset modulo Stride (Stride = 1: all)

(* ------------------------------- universe for C26 ------------------------------------ *)
FTyAtoms == { T("scalar", 4, 0, <<>>), Atom("str"), Atom("never"), Atom("error"),
              T("infer", 0, 0, <<>>), T("infer", 1, 1, <<>>), T("ph", 1, 0, <<>>), T("bound", 0, 0, <<>>) }
FLtAtoms == { Atom("lstatic"), Atom("lerased"), Atom("lerror"), T("linfer", 0, 0, <<>>), T("lph", 1, 0, <<>>), T("lbound", 0, 1, <<>>) }
FConstTys == { T("scalar", 5, 0, <<>>), T("infer", 2, 0, <<>>), T("ph", 2, 1, <<>>), Atom("error"),
               T("ref", 0, 0, <<Atom("lstatic"), T("scalar", 4, 0, <<>>)>>), T("proj", 1, 0, <<T("scalar", 4, 0, <<>>)>>) }
FConstAtoms == { T(k, 0, 0, <<ty>>) : k \in {"cval", "cinfer"}, ty \in FConstTys }
               \cup { T(k, 0, 2, <<ty>>) : k \in {"cph", "cbound"}, ty \in FConstTys }
FArgs0 == FTyAtoms \cup FLtAtoms \cup FConstAtoms

FBounds(tys, lts) ==
     { T("wc_impl", 1, 0, <<x>>) : x \in tys \cup lts }
  \cup { T("wc_outl", 0, 0, <<x, y>>) : x \in lts, y \in {Atom("lstatic"), T("lbound", 0, 0, <<>>)} }
  \cup { T("wc_tyoutl", 0, 0, <<x, y>>) : x \in tys, y \in {Atom("lerased")} }
  \cup { T("wc_tyoutl", 0, 0, <<T("scalar", 4, 0, <<>>), y>>) : y \in lts }
  \cup { T("wc_aliaseq", 1, 0, <<x, T("scalar", 4, 0, <<>>)>>) : x \in tys \cup lts }
  \cup { T("wc_aliaseq", 1, 0, <<x>>) : x \in tys }

\* one constructor applied to the given argument sets
Level(tys, lts, cs) ==
     { T("adt", 1, 0, <<x>>) : x \in tys \cup lts \cup cs }
  \cup { T("tuple", 0, 0, <<x, T("scalar", 4, 0, <<>>)>>) : x \in tys }
  \cup { T("slice", 0, 0, <<x>>) : x \in tys }
  \cup { T("array", 0, 0, <<T("scalar", 4, 0, <<>>), c>>) : c \in cs }
  \cup { T("array", 0, 0, <<x, T("cval", 3, 0, <<T("scalar", 5, 0, <<>>)>>)>>) : x \in tys }
  \cup { T("ref", 0, mu, <<l, T("scalar", 4, 0, <<>>)>>) : l \in lts, mu \in {0, 1} }
  \cup { T("ref", 0, 0, <<Atom("lerased"), x>>) : x \in tys }
  \cup { T("raw", 0, 1, <<x>>) : x \in tys }
  \cup { T("fnptr", 1, 0, <<x, Atom("never")>>) : x \in tys \cup lts }
  \cup { T("fnptr", 0, 0, <<T("scalar", 4, 0, <<>>), x>>) : x \in tys }
  \cup { T("proj", 1, 0, <<x>>) : x \in tys \cup lts \cup cs }
  \cup { T("opaque", 1, 0, <<x>>) : x \in tys \cup lts }
  \cup { T("dyn", 0, 0, <<l, T("wc_impl", 1, 0, <<>>)>>) : l \in lts }
  \cup { T("dyn", 0, 0, <<Atom("lerased"), b>>) : b \in FBounds(tys, lts) }

FL1 == Level(FTyAtoms, FLtAtoms, FConstAtoms)
FL2 == Level(FL1, {}, { T("cval", 0, 0, <<ty>>) : ty \in FL1 })
       \cup { T("adt", 2, 0, <<x, y>>) : x \in FArgs0, y \in FArgs0 }
FlagsUniverse == FTyAtoms \cup FL1 \cup FL2

(* ------------------------------- universe for C25 ------------------------------------ *)
(* convention: index 0 of every binder is a type, index 1 a lifetime, index 2 a constant     *)
USZ == T("scalar", 5, 0, <<>>)
BTyAtoms == { T("bound", d, 0, <<>>) : d \in 0 .. 2 } \cup { T("scalar", 4, 0, <<>>), T("infer", 0, 0, <<>>), T("ph", 1, 0, <<>>) }
BLtAtoms == { T("lbound", d, 1, <<>>) : d \in 0 .. 2 } \cup { Atom("lstatic"), T("linfer", 1, 0, <<>>) }
BConstAtoms == { T("cbound", d, 2, <<USZ>>) : d \in 0 .. 2 } \cup { T("cval", 7, 0, <<USZ>>), T("cval", 8, 0, <<T("bound", 1, 0, <<>>)>>) }
BLevel(tys, lts, cs) ==
     { T("adt", 1, 0, <<x>>) : x \in tys \cup lts \cup cs }
  \cup { T("adt", 2, 0, <<x, y>>) : x \in lts, y \in tys }
  \cup { T("ref", 0, 1, <<l, x>>) : l \in lts, x \in tys }
  \cup { T("array", 0, 0, <<x, c>>) : x \in tys, c \in cs }
  \cup { T("fnptr", 1, 0, <<x, T("scalar", 4, 0, <<>>)>>) : x \in tys \cup lts }
  \cup { T("fnptr", 1, 0, <<T("ref", 0, 0, <<l, x>>), x>>) : l \in lts, x \in tys }
  \cup { T("dyn", 0, 0, <<l, T("wc_impl", 1, 1, <<x>>)>>) : l \in lts, x \in tys \cup lts \cup cs }
  \cup { T("dyn", 0, 0, <<Atom("lstatic"), T("wc_aliaseq", 1, 0, <<l, x>>), T("wc_tyoutl", 0, 1, <<x, l>>)>>) : l \in lts, x \in tys }
  \cup { T("tuple", 0, 0, <<x, y>>) : x \in tys, y \in {T("bound", 1, 0, <<>>), T("scalar", 4, 0, <<>>)} }
BL1 == BLevel(BTyAtoms, BLtAtoms, BConstAtoms)
BL2Args == { t \in BL1 : t.k \in {"fnptr", "dyn", "ref"} /\ Size(t) <= 6 }
BL2 == BLevel(BL2Args, {T("lbound", 0, 1, <<>>), T("lbound", 2, 1, <<>>)}, {T("cbound", 0, 2, <<USZ>>)})
BindersUniverse == BTyAtoms \cup BL1 \cup BL2

\* substitutions for a binder <type, lifetime, const>
ParamSets == { <<ty, lt, c>> : ty \in {T("scalar", 4, 0, <<>>), T("bound", 0, 0, <<>>), T("bound", 1, 0, <<>>),
                                       T("fnptr", 1, 0, <<T("lbound", 0, 1, <<>>), T("bound", 1, 0, <<>>)>>)},
                               lt \in {Atom("lstatic"), T("lbound", 0, 1, <<>>), T("lbound", 1, 1, <<>>)},
                               c \in {T("cval", 1, 0, <<USZ>>), T("cbound", 0, 2, <<USZ>>)} }
Identity == << T("bound", 0, 0, <<>>), T("lbound", 0, 1, <<>>), T("cbound", 0, 2, <<USZ>>) >>

VARIABLE t
Universe == IF Mode = "flags" THEN FlagsUniverse ELSE BindersUniverse
Init == t \in Universe
Next == UNCHANGED t
Spec == Init /\ [][Next]_t

RECURSIVE Hash(_)
Hash(x) == LET kk == CASE x.k = "adt" -> 1 [] x.k = "ref" -> 2 [] x.k = "fnptr" -> 3 [] x.k = "dyn" -> 5 [] x.k = "bound" -> 7
                      [] x.k = "lbound" -> 11 [] x.k = "cbound" -> 13 [] x.k = "array" -> 17 [] x.k = "proj" -> 19 [] x.k = "infer" -> 23
                      [] x.k = "linfer" -> 29 [] x.k = "lph" -> 31 [] x.k = "cinfer" -> 37 [] OTHER -> 41
               RECURSIVE H(_)
               H(i) == IF i = 0 THEN 0 ELSE (Hash(x.a[i]) * (i + 2) + 7 * H(i - 1)) % 1000003
           IN (kk + 3 * x.n + 5 * x.m + 101 * H(Len(x.a))) % 1000003
Selected == Stride = 1 \/ Hash(t) % Stride = Offset

(* ---- C25 laws, on the specification's own operators (the implementation is then bound   *)
(* to these operators by the replay) ---- *)
ShiftRoundTrip == Mode = "binders" => ShiftOut(ShiftIn(t, 0), 0) = t
\* substituting the binder's own variables (moved under the binder) for itself is the identity
SubstIdentity == Mode = "binders" => Subst(ShiftIn(t, 1), Identity, 0) = t
\* a term that does not mention the innermost binder is unchanged (up to the shift) by any substitution
SubstOfShifted == Mode = "binders" => \A ps \in ParamSets : Subst(ShiftIn(t, 0), ps, 0) = t
\* substitution commutes with shifting: shifting the result = substituting shifted parameters into the shifted term
SubstCommutesShift ==
  Mode = "binders" => \A ps \in ParamSets :
     ShiftIn(Subst(t, ps, 0), 0) = Subst(ShiftIn(t, 1), [i \in 1 .. 3 |-> ShiftIn(ps[i], 0)], 0)
\* shift_out is defined exactly on the terms that do not mention the innermost binder
ShiftOutDefined == Mode = "binders" => ((ShiftOut(t, 0) = Fail) <=> (\E s \in {t} : MaxFree(s, 0) >= 1 /\ ~(\A u \in {s} : ShiftOut(u, 0) # Fail)))

Replay ==
  Selected =>
    PrintT(<<"REPLAY",
      IF Mode = "flags" THEN ToJson([t |-> t, flags |-> Flags(t)])
      ELSE ToJson([t |-> t, shift_in |-> ShiftIn(t, 0), shift_out |-> ShiftOut(t, 0),
                   substs |-> { [p |-> q, r |-> Subst(t, q, 0)] :
                                  q \in {Identity} \cup { q \in ParamSets : (Hash(q[1]) + Hash(q[2]) + Hash(q[3]) + Hash(t)) % 5 = 0 } }]) >>)
=============================================================================
