---------------------------- MODULE CoherenceMC ----------------------------
(* TLC enumerates every program of Coherence.tla's family (or, with SAMPLE > 0, the programs *)
(* whose index is selected by the driver through env INPUTS) and prints one REPLAY record    *)
(* per behaviour: the program, the verdict and the priorities the algorithm must produce.    *)
EXTENDS Coherence, Json, IOUtils

CONSTANTS FromFile      \* TRUE: programs are read from the ndjson file named by env INPUTS

FilePrograms == LET recs == ndJsonDeserialize(IOEnv.INPUTS) IN
                { [impls |-> recs[k].impls, bar |-> {recs[k].bar[x] : x \in DOMAIN recs[k].bar}, marker |-> recs[k].marker] : k \in DOMAIN recs }

Init == \E p \in (IF FromFile THEN FilePrograms ELSE Programs) : InitWith(p)
Spec == Init /\ [][Next]_vars

Replay == Done => PrintT(<<"REPLAY", ToJson([prog |-> [impls |-> prog.impls, bar |-> prog.bar, marker |-> prog.marker],
                                             verdict |-> verdict,
                                             prio |-> [i \in 1 .. N |-> IF Assigned(i) THEN prio[i] ELSE -1],
                                             sets |-> [i \in 1 .. N |-> Cardinality(ApplySet(i))]])>>)
=============================================================================
