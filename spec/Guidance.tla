------------------------------ MODULE Guidance ------------------------------
(* C17: combining candidate answers.  Canonical substitutions are sequences of generic       *)
(* arguments whose unknowns are the bound variables ^0.i.                                     *)
(*  - AU / Merge      : merge_into_guidance + AntiUnifier as implemented (aggregate.rs)       *)
(*  - MayInvalidateAlg: SubstitutionExt::may_invalidate as implemented (slg.rs)               *)
(*  - Instance        : the meaning the property refers to ("is an instance of")              *)
(*  - Combine         : Solution::combine (chalk-solve/src/solve.rs)                          *)
EXTENDS Terms

Var(t) == t.k \in {"bound", "lbound", "cbound"}
\* fresh variables of the result: each occurrence is a distinct unknown, identified by its position p
FreshTy(p) == T("FRESH", p, 0, <<>>)
FreshLt(p) == T("lFRESH", p, 0, <<>>)
FreshC(p, ty) == T("cFRESH", p, 0, <<ty>>)
IsFresh(t) == t.k \in {"FRESH", "lFRESH", "cFRESH"}
SortOf(t) == IF IsLt(t) \/ t.k = "lFRESH" THEN "lt" ELSE IF IsConst(t) \/ t.k = "cFRESH" THEN "const" ELSE "ty"

SameName(a, b) == a.k = b.k /\ Len(a.a) = Len(b.a) /\
  CASE a.k \in {"adt", "scalar", "proj", "opaque", "ph", "cph", "lph"} -> a.n = b.n /\ (a.k \in {"ph", "cph", "lph"} => a.m = b.m)
    [] a.k \in {"ref", "raw"} -> a.m = b.m
    [] OTHER -> TRUE

RECURSIVE AU(_, _, _)
AU(x, y, p) ==
  LET kids == [i \in DOMAIN x.a |-> AU(x.a[i], y.a[i], 10 * p + i)] IN
  IF IsLt(x) THEN (IF Var(x) \/ Var(y) \/ x # y THEN FreshLt(p) ELSE x)
  ELSE IF IsConst(x) THEN
       (IF x.k \in {"cinfer", "cbound"} \/ y.k \in {"cinfer", "cbound"} THEN FreshC(p, x.a[1])
        ELSE IF x.k = y.k /\ x.n = y.n /\ x.m = y.m THEN x ELSE FreshC(p, x.a[1]))
  ELSE IF Var(x) \/ Var(y) \/ x.k \in {"fnptr", "dyn"} THEN FreshTy(p)
  ELSE IF x.k = y.k /\ x.k \in {"adt", "tuple", "proj", "opaque"} THEN (IF SameName(x, y) THEN [x EXCEPT !.a = kids] ELSE FreshTy(p))
  ELSE IF x.k = y.k /\ x.k \in {"scalar", "ph"} THEN (IF SameName(x, y) THEN x ELSE FreshTy(p))
  ELSE IF x.k = y.k /\ x.k \in {"str", "never", "error"} THEN x
  ELSE IF x.k = y.k /\ x.k \in {"slice", "array"} THEN [x EXCEPT !.a = kids]
  ELSE IF x.k = y.k /\ x.k \in {"ref", "raw"} THEN (IF x.m = y.m THEN [x EXCEPT !.a = kids] ELSE FreshTy(p))
  ELSE FreshTy(p)

\* merge_into_guidance: top-level lifetimes are always replaced by a fresh variable
Merge(g, a) == [i \in DOMAIN g |-> IF IsLt(g[i]) THEN FreshLt(i) ELSE AU(g[i], a[i], i)]

(* ----------------------------------- meaning ----------------------------------------- *)
\* x is an instance of the pattern p (fresh variables of p match anything of their sort; the
\* bound variables of a canonical p are unknowns too -- repeated ones must match equal terms)
RECURSIVE Match(_, _, _)
\* bnd = [ok, b]: b maps the keys of p's bound variables seen so far to the terms they matched
NoMatch == [ok |-> FALSE, b |-> <<>>]
Match(p, x, bnd) ==
  IF ~bnd.ok THEN bnd
  ELSE IF Var(p) \/ IsFresh(p) THEN
       LET key == <<p.k, IF IsFresh(p) THEN p.n ELSE p.m>> IN
       IF key \in DOMAIN bnd.b THEN (IF bnd.b[key] = x THEN bnd ELSE NoMatch)
       ELSE IF SortOf(x) = SortOf(p)
            THEN [ok |-> TRUE, b |-> [k \in DOMAIN bnd.b \cup {key} |-> IF k = key THEN x ELSE bnd.b[k]]]
            ELSE NoMatch
  ELSE IF Var(x) \/ IsFresh(x) \/ ~SameName(p, x) THEN NoMatch
  ELSE LET RECURSIVE Kids(_, _)
           Kids(i, b) == IF i > Len(p.a) THEN b ELSE Kids(i + 1, Match(p.a[i], x.a[i], b))
       IN Kids(1, bnd)
RECURSIVE MatchSeq(_, _, _, _)
MatchSeq(ps, xs, i, b) == IF i > Len(ps) THEN b ELSE MatchSeq(ps, xs, i + 1, Match(ps[i], xs[i], b))
Instance(xs, ps) == Len(xs) = Len(ps) /\ MatchSeq(ps, xs, 1, [ok |-> TRUE, b |-> <<>>]).ok

\* two guidances say the same: each is an instance of the other
Equivalent(g1, g2) == Instance(g1, g2) /\ Instance(g2, g1)

(* --------------------------- may_invalidate as implemented --------------------------- *)
RECURSIVE MI(_, _)
MI(new, cur) ==
  IF IsLt(new) THEN TRUE                                      \* aggregate_lifetimes: always "could differ"
  ELSE IF IsConst(new) THEN
       (IF cur.k = "cbound" THEN FALSE
        ELSE IF new.k = "cbound" THEN TRUE
        ELSE IF new.k = cur.k /\ new.k \in {"cval", "cph"} THEN ~(new.n = cur.n /\ new.m = cur.m)
        ELSE TRUE)
  ELSE IF cur.k = "bound" THEN FALSE
  ELSE IF new.k = "bound" THEN TRUE
  ELSE IF new.k # cur.k THEN TRUE
  ELSE CASE new.k \in {"adt", "tuple", "proj", "opaque"} -> ~SameName(new, cur) \/ \E i \in DOMAIN new.a : MI(new.a[i], cur.a[i])
         [] new.k \in {"scalar", "ph"} -> ~SameName(new, cur)
         [] new.k \in {"str", "never", "error"} -> FALSE
         [] new.k \in {"slice", "array"} -> \E i \in DOMAIN new.a : MI(new.a[i], cur.a[i])
         [] new.k \in {"ref", "raw"} -> new.m # cur.m \/ \E i \in DOMAIN new.a : MI(new.a[i], cur.a[i])
         [] OTHER -> TRUE
MayInvalidateAlg(new, cur) == \E i \in DOMAIN new : MI(new[i], cur[i])

(* ------------------------------- Solution::combine ----------------------------------- *)
\* a solution: [kind: "Unique"|"Definite"|"Suggested"|"Unknown", s: substitution id (0 = none), triv: BOOLEAN]
\*   triv = Unique with the identity substitution and no constraints
Guide(x) == IF x.kind = "Unique" THEN [kind |-> "Definite", s |-> x.s, triv |-> FALSE] ELSE x
Combine(x, y) ==
  IF x = y THEN x
  ELSE IF x.kind = "Unique" /\ x.triv THEN x
  ELSE IF y.kind = "Unique" /\ y.triv THEN y
  ELSE LET gx == Guide(x)  gy == Guide(y) IN
       IF gx.kind = gy.kind /\ gx.kind \in {"Definite", "Suggested"} /\ gx.s = gy.s THEN [kind |-> gx.kind, s |-> gx.s, triv |-> FALSE]
       ELSE [kind |-> "Unknown", s |-> 0, triv |-> FALSE]
\* strength order of what a solution claims about substitution s
Rank(x) == CASE x.kind = "Unique" -> 3 [] x.kind = "Definite" -> 2 [] x.kind = "Suggested" -> 1 [] OTHER -> 0
NoStronger(r, x, y) == r = x \/ r = y \/ (Rank(r) <= Rank(Guide(x)) /\ Rank(r) <= Rank(Guide(y)) /\ (r.s # 0 => r.s = x.s /\ r.s = y.s))
==============================================================================
