--------------------------- MODULE SLGGroundMC ---------------------------
(***************************************************************************)
(* Model-checking configuration of SLGGround: TLC chooses, in Init, a      *)
(* program from the family file (env INPUTS, ndjson written by the driver; *)
(* exhaustive or seed-sampled) and a *plan*: a history of public calls on  *)
(* one solver instance (solve / solve_limited with the callback returning  *)
(* false at its k-th consultation / a callback panic during the k-th table *)
(* construction).  Every behaviour is one complete run of the engine.      *)
(***************************************************************************)
EXTENDS SLGGround, Json, IOUtils, TLCExt

CONSTANTS MaxOps,      \* length of the history of public calls
          Kinds,       \* subset of {"solve", "limited", "panic"}
          MaxStop,     \* limited: callback returns false at consultation k \in 1..MaxStop
          MaxPanic,    \* panic: a callback panics instead of the call's k-th engine event, k \in 1..MaxPanic
          MaxEvents,   \* bound on the number of engine events of one public call (C09)
          NegGoals,    \* TRUE: also pose `not { atom }` root goals
          PanicPlans   \* TRUE: histories are <<panic, solve>> and (MaxOps >= 3) <<solve, panic, solve>> only

VARIABLES plan, cur, cb, tb, nev, results

vars == <<slgvars, prog, plan, cur, cb, tb, nev, results>>

Inputs == ndJsonDeserialize(IOEnv.INPUTS)
Range(f) == {f[i] : i \in DOMAIN f}

ProgAtoms(p) == {p.clauses[i].head : i \in 1..Len(p.clauses)}
                \cup UNION {{p.clauses[i].body[j].a : j \in 1..Len(p.clauses[i].body)} : i \in 1..Len(p.clauses)}
RootGoals(p) == Range(p.goals)

OpsFor(p) ==
  {[kind |-> "solve", goal |-> g, k |-> 0] : g \in RootGoals(p)}
  \cup (IF "limited" \in Kinds
        THEN {[kind |-> "limited", goal |-> g, k |-> k] : g \in RootGoals(p), k \in 1..MaxStop} ELSE {})
  \cup (IF "panic" \in Kinds
        THEN {[kind |-> "panic", goal |-> g, k |-> k] : g \in RootGoals(p), k \in 1..MaxPanic} ELSE {})

RECURSIVE PlansOf(_, _)
PlansOf(p, n) == IF n = 0 THEN {<<>>}
                 ELSE LET shorter == PlansOf(p, n - 1) IN
                      shorter \cup {<<o>> \o s : o \in OpsFor(p), s \in {x \in shorter : Len(x) = n - 1}}

SolveOps(p) == {[kind |-> "solve", goal |-> g, k |-> 0] : g \in RootGoals(p)}
PanicOps(p) == {[kind |-> "panic", goal |-> g, k |-> k] : g \in RootGoals(p), k \in 1..MaxPanic}
CrashPlans(p) == {<<c, s>> : c \in PanicOps(p), s \in SolveOps(p)}
                 \cup (IF MaxOps >= 3 THEN {<<s0, c, s>> : s0 \in SolveOps(p), c \in PanicOps(p), s \in SolveOps(p)} ELSE {})

TruthClass(g) == IF TruthOfGoal(g) THEN "Unique" ELSE "None"

(* The table of the root goal was completed while it was NOT the root (inside a coinductive
   cycle through another table), so one of its answers still carries delayed subgoals.  Before
   the repair (fix F20) a later root query on that table skipped the answer for good (former named
   deviation SLG_RootSkipsDelayedAnswer); now root_answer creates the refinement strand late
   (action RefineLate).  `stale` is kept in the results as a coverage measure: the histories in
   which that path is exercised. *)
StaleDelayed ==
  stT # 0 /\ stT <= Len(tables) /\
  \E i \in 1..Len(tables[stT].answers) : tables[stT].answers[i].del # <<>>

NoCur == [kind |-> "none", goal |-> "", k |-> 0]

Init ==
  /\ SLGInit
  /\ \E i \in 1..Len(Inputs) :
       /\ prog = [id |-> Inputs[i].id, clauses |-> Inputs[i].clauses, co |-> Range(Inputs[i].co),
                  goals |-> Inputs[i].goals]
       /\ plan \in (IF PanicPlans THEN CrashPlans(prog) ELSE PlansOf(prog, MaxOps) \ {<<>>})
  /\ cur = NoCur /\ cb = 0 /\ tb = 0 /\ nev = 0 /\ results = <<>>

Done == plan = <<>> /\ op.kind = "none" /\ pc = "idle"

EngineKind(k) == IF k = "panic" THEN "solve" ELSE k

StartOp ==
  /\ op.kind = "none" /\ pc = "idle" /\ plan # <<>>
  /\ cur' = Head(plan) /\ plan' = Tail(plan)
  /\ cb' = 0 /\ tb' = 0 /\ nev' = 0
  /\ Step([ev |-> "Op", kind |-> EngineKind(Head(plan).kind)])
  /\ UNCHANGED <<prog, results>>

Consulting == pc = "idle" /\ lastRes.res = "QuantumExceeded" /\ op.kind = "limited"

\* a callback can panic where the engine calls into the database: building a table (the root's, or a subgoal's during select_subgoal)
\* and unifying an answer into a strand (merge of a positive literal)
CanPanic ==
  \/ pc = "idle" /\ op.phase = "stream" /\ ~HasTable(cur.goal)
  \/ pc = "select" /\ held # <<>> /\ held[1].sel = 0 /\ held[1].lits # <<>> /\ ~HasTable(held[1].lits[Len(held[1].lits)].g)
  \/ /\ pc = "selected" /\ held # <<>> /\ held[1].sel # 0
     /\ LET s == held[1]  t == s.selT + 1 IN
          s.lits[s.sel].pos /\ s.selA < Len(tables[t].answers)
          /\ ~(tables[TopT].mode = "Complete" /\ tables[t].answers[s.selA + 1].amb)
\* crash point of a "panic" call: the callback panics instead of the engine's k-th event
PanicNow == cur.kind = "panic" /\ nev + 1 = cur.k /\ CanPanic

EngineStep ==
  /\ op.kind # "none" /\ ~PanicNow
  /\ \E e \in Candidates(cur) :
       /\ Step(e)
       \* the continue-callback: false exactly at its k-th consultation
       /\ e.ev = "Stop" => Consulting /\ cb + 1 = cur.k
       /\ (e.ev = "RootBegin" /\ Consulting) => cb + 1 # cur.k
       /\ cb' = IF Consulting /\ e.ev \in {"Stop", "RootBegin"} THEN cb + 1 ELSE cb
       /\ tb' = IF e.ev = "TableNew" THEN tb + 1 ELSE tb
       /\ nev' = nev + 1
       /\ results' = IF e.ev = "OpEnd"
                     THEN Append(results, [goal |-> cur.goal, kind |-> cur.kind, k |-> cur.k,
                                           class |-> e.class, nev |-> nev + 1, cb |-> cb, tb |-> tb,
                                           truth |-> TruthClass(cur.goal), stale |-> StaleDelayed,
                                           lost |-> Len(lost)])
                     ELSE results
  /\ UNCHANGED <<prog, plan, cur>>

PanicStep ==
  /\ op.kind # "none" /\ PanicNow
  /\ Step([ev |-> "Panic"])
  /\ nev' = nev + 1
  /\ UNCHANGED <<prog, plan, cur, cb, tb, results>>

Next == StartOp \/ EngineStep \/ PanicStep \/ (Done /\ UNCHANGED vars)

Spec == Init /\ [][Next]_vars

----------------------------------------------------------------------------
(* Properties *)

\* No earlier call of this behaviour lost a strand to a panic (deviation SLG_PanicWhileStrandHeld)
Clean == lost = <<>>

\* no call up to the i-th ended in a panic (injected, or the engine's own: deviation
\* SLG_NegativeOnDelayedAnswer); after a panic a strand may be lost (SLG_PanicWhileStrandHeld)
NoPanicUpTo(i) == \A j \in 1..i : results[j].class # "Panic"

\* the engine never panics by itself on a stratified program (former deviation
\* SLG_NegativeOnDelayedAnswer, repaired by fix F21: action NegSkip)
EnginePanicShape ==
  \A i \in 1..Len(results) : results[i].class = "Panic" => results[i].kind = "panic"

\* C02 / C10 / C12: a completed `solve` of a closed goal returns what the program means,
\* whatever was solved, interrupted or panicked before on the same forest.
ResultsCorrect ==
  \A i \in 1..Len(results) :
     (results[i].kind = "solve" /\ NoPanicUpTo(i)) => results[i].class = TruthClass(results[i].goal)

\* (kept under its old name) a stale delayed answer no longer makes any answer wrong
DeviationShape ==
  \A i \in 1..Len(results) :
     (results[i].kind = "solve" /\ results[i].stale /\ NoPanicUpTo(i)) => results[i].class = results[i].truth

\* C12 (as the engine is): a call made while no strand has been lost to a panic answers correctly,
\* whatever panicked before; named deviation SLG_PanicWhileStrandHeld = the calls with lost > 0
NoPanicClassUpTo(i) == \A j \in 1..i : results[j].class = "Panic" => results[j].kind = "panic"
ResultsCorrectUnlessLost ==
  \A i \in 1..Len(results) :
     (results[i].kind = "solve" /\ results[i].lost = 0 /\ NoPanicClassUpTo(i))
        => results[i].class = TruthClass(results[i].goal)
\* C12 as the property states it (violated through the named deviation)
PanicSafe ==
  \A i \in 1..Len(results) :
     (results[i].kind = "solve" /\ NoPanicClassUpTo(i)) => results[i].class = TruthClass(results[i].goal)

\* no strand is ever lost to a panic (the former deviation SLG_PanicWhileStrandHeld, repaired by fix F28)
NothingLost == lost = <<>>

\* C11: an interrupted solve returns the full answer or "Ambiguous; no guidance"
InterruptSafe ==
  \A i \in 1..Len(results) :
     (results[i].kind = "limited" /\ NoPanicUpTo(i)) => results[i].class \in {TruthClass(results[i].goal), "Unknown"}

\* C12: a call during which a callback panicked reports the panic (and nothing else)
PanicReported ==
  \A i \in 1..Len(results) :
     results[i].kind = "panic" =>
        results[i].class \in {"Panic", TruthClass(results[i].goal)}

\* C09: every public call finishes within MaxEvents engine events
BoundedWork == nev <= MaxEvents

\* StrandConservation: a strand is never lost except through the named deviation
FamilyOK == Stratified /\ NoMixedCycles

TypeOK == SLGTypeInv

\* one line per behaviour for the spec -> implementation replay
Replay ==
  Done => PrintT(<<"REPLAY", ToJson([id |-> prog.id, results |-> results, lost |-> Len(lost)])>>)

\* history variables do not distinguish engine states
=============================================================================
