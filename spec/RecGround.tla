---------------------------- MODULE RecGround ----------------------------
(***************************************************************************)
(* The recursive solver (chalk-recursive: fixed_point.rs, solve.rs,        *)
(* fulfill.rs, combine.rs) as implemented -- after the repairs F6, F22,    *)
(* F24, F25, F26 -- closed over propositional programs.  The solver is a   *)
(* recursive procedure; it is transcribed as a recursive operator over an  *)
(* explicit solver state                                                   *)
(*    cache, scratch : sets of <<goal, value>>     (Cache)                 *)
(*    graph          : Seq([g, sol, sd, links])    (SearchGraph; sd = stack *)
(*                     depth or 0, links = Minimums.positive)              *)
(*    stk            : Seq([co, cycle])            (Stack)                 *)
(*    intr, cb, stop : the continue-callback (consulted cb times; answers  *)
(*                     false at its stop-th consultation)                  *)
(*    ev             : the hook events emitted so far                      *)
(* One public call = one TLC step (RecGroundMC); its event list must be    *)
(* the event list of the real solver, and the invariants of RecGroundMC    *)
(* (CacheSound, GraphEmpty, ResultsCorrect, ...) are evaluated between     *)
(* calls.                                                                  *)
(* Values: "U" Unique, "E" Err(NoSolution), "A" Ambig(Unknown),            *)
(*         "S" Ambig(Suggested) -- closed goals have no other answers.     *)
(* Goals: "a<i>" Implemented(S<i>: T<i>), "e<i>" FromEnv, "n<i>" not{..}.  *)
(***************************************************************************)
EXTENDS Naturals, Sequences, FiniteSets, TLC

CONSTANT CacheOn          \* the solver is built with a cache (the default) or without

INF == 1000000
Min(a, b) == IF a < b THEN a ELSE b
Atoms == {"a1", "a2", "a3", "a4"}
EnvOf == [a \in Atoms |-> CASE a = "a1" -> "e1" [] a = "a2" -> "e2" [] a = "a3" -> "e3" [] OTHER -> "e4"]
NotOf == [a \in Atoms |-> CASE a = "a1" -> "n1" [] a = "a2" -> "n2" [] a = "a3" -> "n3" [] OTHER -> "n4"]
NotGoals == {NotOf[a] : a \in Atoms}
AtomOfNot(g) == CHOOSE a \in Atoms : NotOf[a] = g
Front(s) == SubSeq(s, 1, Len(s) - 1)
Last(s) == s[Len(s)]

(* the obligation lists of the clauses that could match the goal, in the order solve_from_clauses tries them: custom clauses
   (clauses with a negative condition; lowering reverses their conditions), the trait's `Implemented :- FromEnv` rule, the impls
   (where-clauses in declaration order).  Obligations are popped from the END of the list. *)
IsPositive(c) == \A i \in 1..Len(c.body) : c.body[i].pos
Rev(s) == [i \in 1..Len(s) |-> s[Len(s) + 1 - i]]
ClausesOf(prog, g) ==
  IF g \notin Atoms THEN <<>>
  ELSE LET sel(P(_)) == LET RECURSIVE B(_)
                            B(i) == IF i > Len(prog.clauses) THEN <<>>
                                    ELSE IF prog.clauses[i].head = g /\ P(prog.clauses[i])
                                         THEN <<IF IsPositive(prog.clauses[i]) THEN prog.clauses[i].body ELSE Rev(prog.clauses[i].body)>> \o B(i + 1)
                                         ELSE B(i + 1)
                        IN B(1)
       IN sel(LAMBDA c : ~IsPositive(c)) \o <<<<[pos |-> TRUE, a |-> EnvOf[g]]>>>> \o sel(LAMBDA c : IsPositive(c))

IsCo(prog, g) == g \in prog.co

Lookup(tab, g) == (CHOOSE p \in tab : p[1] = g)[2]
Has(tab, g) == \E p \in tab : p[1] = g
Emit(s, e) == [s EXCEPT !.ev = Append(@, e)]

\* Solution::combine on the answers closed goals can have
Combine(a, b) == IF a = b THEN a ELSE IF a = "U" \/ b = "U" THEN "U" ELSE "A"
Ambig(v) == v \in {"A", "S"}

GraphIndex(s, g) == IF \E i \in 1..Len(s.graph) : s.graph[i].g = g THEN CHOOSE i \in 1..Len(s.graph) : s.graph[i].g = g ELSE 0
RollbackTo(s, dfn) == [s EXCEPT !.graph = SubSeq(@, 1, dfn - 1)]
MoveTo(s, dfn, which) ==
  LET moved == {<<s.graph[i].g, s.graph[i].sol>> : i \in dfn..Len(s.graph)} IN
  IF which = "cache" THEN [s EXCEPT !.cache = @ \cup moved, !.graph = SubSeq(@, 1, dfn - 1)]
  ELSE [s EXCEPT !.scratch = @ \cup moved, !.graph = SubSeq(@, 1, dfn - 1)]
Mixed(stk, d) == (\E i \in d..Len(stk) : stk[i].co) /\ (\E i \in d..Len(stk) : ~stk[i].co)

RECURSIVE SolveGoal(_, _, _), Iterate(_, _, _, _, _, _), SolveIteration(_, _, _), FromClauses(_, _, _, _, _, _, _), Round(_, _, _, _, _), Reprove(_, _, _, _)

(* RecursiveContext::solve_goal: returns [s, v, m] (m: what the caller's minimums are updated with) *)
SolveGoal(prog, s, g) ==
  IF CacheOn /\ Has(s.cache, g) THEN [s |-> Emit(s, <<"Cache", g, Lookup(s.cache, g)>>), v |-> Lookup(s.cache, g), m |-> INF]
  ELSE IF CacheOn /\ Has(s.scratch, g) THEN [s |-> Emit(s, <<"Cache", g, Lookup(s.scratch, g)>>), v |-> Lookup(s.scratch, g), m |-> INF]
  ELSE LET at == GraphIndex(s, g) IN
  IF at # 0 THEN
     LET n == s.graph[at] IN
     IF n.sd # 0 THEN
        LET s1 == [s EXCEPT !.stk[n.sd].cycle = TRUE] IN
        IF Mixed(s1.stk, n.sd) THEN [s |-> s1, v |-> "E", m |-> INF]          \* (no hook event: the error value is returned silently)
        ELSE [s |-> Emit(s1, <<"Graph", g, "on", n.sol>>), v |-> n.sol, m |-> n.links]
     ELSE [s |-> Emit(s, <<"Graph", g, "off", n.sol>>), v |-> n.sol, m |-> n.links]
  ELSE
     LET co == IsCo(prog, g)
         depth == Len(s.stk) + 1
         dfn == Len(s.graph) + 1
         s1 == Emit([s EXCEPT !.stk = Append(@, [co |-> co, cycle |-> FALSE]),
                              !.graph = Append(@, [g |-> g, sol |-> IF co THEN "U" ELSE "E", sd |-> depth, links |-> dfn])],
                    <<"New", g>>)
         r == Iterate(prog, s1, g, depth, dfn, 8)
         s2 == [r.s EXCEPT !.graph[dfn].links = r.m, !.graph[dfn].sd = 0, !.stk = Front(@)]
         res == s2.graph[dfn].sol
         how == IF ~(r.m >= dfn) THEN "keep" ELSE IF CacheOn /\ s2.intr THEN "scratch" ELSE IF CacheOn THEN "cache" ELSE "rollback"
         s3 == Emit(s2, <<"Exit", g, res, how>>)
         s4 == CASE how = "keep" -> s3 [] how = "rollback" -> RollbackTo(s3, dfn) [] OTHER -> MoveTo(s3, dfn, how)
     IN [s |-> s4, v |-> res, m |-> r.m]

(* solve_new_subgoal: the fixed-point loop of one goal; returns [s, m] *)
Iterate(prog, s, g, depth, dfn, fuel) ==
  LET it == SolveIteration(prog, s, g)
      cyc == it.s.stk[depth].cycle
      s0 == [it.s EXCEPT !.stk[depth].cycle = FALSE]
  IN IF ~cyc THEN [s |-> Emit([s0 EXCEPT !.graph[dfn].sol = it.v], <<"Iter", it.v, "nocycle">>), m |-> it.m]
     ELSE LET old == s0.graph[dfn].sol
              s1 == [s0 EXCEPT !.graph[dfn].sol = it.v]
              stopnow == (old = it.v) \/ Ambig(it.v)                       \* reached_fixed_point
          IN IF stopnow /\ old = it.v THEN [s |-> Emit(s1, <<"Iter", it.v, "fixed">>), m |-> it.m]
             ELSE IF stopnow THEN      \* stopped before convergence: drop what the subgoals computed, keep no guidance (F22, F26)
                  [s |-> [RollbackTo(Emit(s1, <<"Iter", it.v, "unconverged">>), dfn + 1) EXCEPT !.graph[dfn].sol = "A"], m |-> it.m]
             ELSE IF fuel = 0 THEN [s |-> Emit(s1, <<"FUEL">>), m |-> it.m]
             ELSE Iterate(prog, RollbackTo(Emit(s1, <<"Iter", it.v, "again">>), dfn + 1), g, depth, dfn, fuel - 1)

(* solve_iteration: the callback is consulted first; returns [s, v, m] *)
SolveIteration(prog, s, g) ==
  LET s0 == [s EXCEPT !.cb = @ + 1] IN
  IF s0.stop # 0 /\ s0.cb = s0.stop THEN [s |-> Emit([s0 EXCEPT !.intr = TRUE], <<"Intr">>), v |-> "A", m |-> INF]
  ELSE IF g \in NotGoals
       THEN LET r == Round(prog, s0, <<[pos |-> FALSE, a |-> AtomOfNot(g)]>>, <<>>, INF) IN           \* solve_via_simplification
            IF r.v = "E" THEN [s |-> r.s, v |-> "E", m |-> r.m]
            ELSE IF r.kept = <<>> THEN [s |-> r.s, v |-> "U", m |-> r.m]
            ELSE Reprove(prog, r.s, r.kept, r.m)
       ELSE FromClauses(prog, s0, g, ClausesOf(prog, g), 1, "none", INF)

(* solve_from_clauses: every clause is tried; the answers are combined; a trivially true answer ends the loop *)
FromClauses(prog, s, g, cls, i, cur, m) ==
  IF i > Len(cls) THEN [s |-> s, v |-> IF cur = "none" THEN "E" ELSE cur, m |-> m]
  ELSE LET r == Round(prog, s, cls[i], <<>>, m)
           fin == IF r.v = "E" THEN r ELSE IF r.kept = <<>> THEN [s |-> r.s, v |-> "U", m |-> r.m] ELSE Reprove(prog, r.s, r.kept, r.m)
           cur1 == IF fin.v = "E" THEN cur ELSE IF cur = "none" THEN fin.v ELSE Combine(cur, fin.v)
       IN IF cur1 = "U" THEN [s |-> fin.s, v |-> "U", m |-> fin.m]
          ELSE FromClauses(prog, fin.s, g, cls, i + 1, cur1, fin.m)

(* Fulfill::fulfill on closed obligations: one round, obligations popped from the end; returns [s, v ("E" or "ok"), kept, m] *)
Round(prog, s, obl, kept, m) ==
  IF obl = <<>> THEN [s |-> s, v |-> "ok", kept |-> kept, m |-> m]
  ELSE LET lit == Last(obl)
           r == SolveGoal(prog, s, lit.a)
       IN IF lit.pos
          THEN LET m1 == Min(m, r.m) IN
               IF r.v = "E" THEN [s |-> r.s, v |-> "E", kept |-> <<>>, m |-> m1]
               ELSE Round(prog, r.s, Front(obl), IF Ambig(r.v) THEN Append(kept, lit) ELSE kept, m1)
          ELSE \* refute: the subgoal is solved with minimums of its own
               IF r.v = "U" THEN [s |-> r.s, v |-> "E", kept |-> <<>>, m |-> m]
               ELSE Round(prog, r.s, Front(obl), IF r.v = "E" THEN kept ELSE Append(kept, lit), m)

(* Fulfill::solve with obligations left: the positive ones are proved once more to collect a suggestion *)
Reprove(prog, s, kept, m) ==
  IF kept = <<>> THEN [s |-> s, v |-> "A", m |-> m]
  ELSE LET lit == Last(kept) IN
       IF ~lit.pos THEN Reprove(prog, s, Front(kept), m)
       ELSE LET r == SolveGoal(prog, s, lit.a)
                m1 == Min(m, r.m)
            IN IF r.v = "E" THEN [s |-> r.s, v |-> "E", m |-> m1]                 \* (F25: was an unwrap)
               ELSE IF r.v \in {"U", "S"} THEN [s |-> r.s, v |-> "S", m |-> m1]
               ELSE Reprove(prog, r.s, Front(kept), m1)

(* solve_root_goal *)
SolveRoot(prog, s, g, stop) ==
  LET s0 == [s EXCEPT !.stk = <<>>, !.graph = <<>>, !.intr = FALSE, !.scratch = {}, !.cb = 0, !.stop = stop, !.ev = <<>>] IN
  SolveGoal(prog, s0, g)

InitSolver == [cache |-> {}, scratch |-> {}, graph |-> <<>>, stk |-> <<>>, intr |-> FALSE, cb |-> 0, stop |-> 0, ev |-> <<>>]
=============================================================================
