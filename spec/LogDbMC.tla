------------------------------- MODULE LogDbMC -------------------------------
(* small model of LogDb.tla: any sequence of up to MaxServes serves followed by the wrapper's Emit *)
EXTENDS LogDb
CONSTANT MaxServes
VARIABLE n
Kinds == {"adt", "trait", "impl"}
NameOf(k, i) == IF k = "adt" THEN (IF i = 1 THEN "S1" ELSE "S2") ELSE (IF i = 1 THEN "T1" ELSE "T2")
Init == LInit /\ n = 0
\* the wrapper's own Emit prints exactly what it recorded
WrapperEmit == Emit({ r[2] : r \in { x \in names : x[1] = "adt" } }, { r[2] : r \in { x \in names : x[1] = "trait" } }, Cardinality(ServedImpls))
Next == \/ (n < MaxServes /\ \E k \in Kinds, i \in 1 .. 2 : Serve(k, i, NameOf(k, i)) /\ n' = n + 1)
        \/ (WrapperEmit /\ UNCHANGED n)
        \/ (emitted.done /\ UNCHANGED <<lvars, n>>)
Spec == Init /\ [][Next]_<<lvars, n>>
EmitCoversServed == emitted.done => /\ \A x \in names : (x[1] = "adt" => x[2] \in emitted.structs) /\ (x[1] = "trait" => x[2] \in emitted.traits)
                                      /\ emitted.nimpls >= Cardinality(ServedImpls)
EmitAlwaysPossible == ~emitted.done => ENABLED WrapperEmit
=============================================================================
