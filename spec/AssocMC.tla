------------------------------- MODULE AssocMC -------------------------------
(* C07: associated types normalise to the value of the applicable impl.                         *)
(* Program: structs Foo, Bar, Baz, V<T>; `trait Elem { type E; }` with the fixed impls           *)
(*   Elem for Foo (E = Bar), Elem for Bar (E = Foo), impl<T> Elem for V<T> (E = T);              *)
(* `trait Tr { type A; }` with a coherent choice of impls: heads Foo / Bar / V<T>, values         *)
(*   closed types, the parameter, V<T>, projections <T as Elem>::E, <T as Tr>::A (recursive),     *)
(*   also below a type constructor.  Baz has no impl at all.                                      *)
(* NormSem(X) is the value of the impl that applies to X with its parameter substituted and       *)
(* every projection inside normalised in turn; NONE when no impl applies.  TLC prints, for each   *)
(* program and concrete X, NormSem(X) -- the only solution of `Normalize(<X as Tr>::A -> ?U)`     *)
(* and the only Y with `X: Tr<A = Y>`.                                                            *)
EXTENDS Integers, Sequences, FiniteSets, TLC, Json

C(k) == [k |-> k, a |-> <<>>]
V(x) == [k |-> "V", a |-> <<x>>]
Proj(tr, x) == [k |-> tr, a |-> <<x>>]          \* tr \in {"pE", "pA"}: <x as Elem>::E / <x as Tr>::A
T0 == C("T")
NONE == C("NONE")
Values == { C("Foo"), C("Bar"), T0, V(T0), V(C("Foo")), Proj("pE", T0), V(Proj("pE", T0)), Proj("pE", C("Foo")),
            Proj("pA", T0), V(Proj("pA", T0)), Proj("pE", V(T0)), Proj("pA", Proj("pE", T0)) }
Closed(v) == v \in {C("Foo"), C("Bar"), V(C("Foo")), Proj("pE", C("Foo"))}
\* an impl of Tr: head \in {"Foo", "Bar", "V"} (V = impl<T> Tr for V<T>), value
Impls == { [head |-> h, val |-> v] : h \in {"Foo", "Bar", "V"}, v \in Values } 
WellScoped(im) == im.head = "V" \/ Closed(im.val)
Programs == { p \in SUBSET { im \in Impls : WellScoped(im) } : Cardinality(p) \in 1 .. 3 /\ \A i, j \in p : i.head = j.head => i = j }

RECURSIVE SubstT(_, _), Norm(_, _, _), NormAll(_, _, _)
SubstT(v, x) == IF v = T0 THEN x ELSE [v EXCEPT !.a = [i \in DOMAIN v.a |-> SubstT(v.a[i], x)]]
HeadOf(x) == IF x.k = "V" THEN "V" ELSE x.k
\* Norm(p, x, fuel): value of <x as Tr>::A for a closed, already normalised x
Norm(p, x, fuel) ==
  IF fuel = 0 THEN C("DIVERGE")
  ELSE LET cands == { im \in p : im.head = HeadOf(x) } IN
       IF cands = {} THEN NONE
       ELSE LET im == CHOOSE im \in cands : TRUE
                raw == IF im.head = "V" THEN SubstT(im.val, x.a[1]) ELSE im.val
            IN NormAll(p, raw, fuel - 1)
\* Elem is fixed
NormE(x) == CASE x = C("Foo") -> C("Bar") [] x = C("Bar") -> C("Foo") [] x.k = "V" -> x.a[1] [] OTHER -> NONE
\* normalise every projection inside v, innermost first
NormAll(p, v, fuel) ==
  LET kids == [i \in DOMAIN v.a |-> NormAll(p, v.a[i], fuel)] IN
  \* a projection inside the value that no impl normalises (the program is then not well-formed: the impl lacks a bound) is
  \* left to the solvers' placeholder fallback; the specification takes no position ("STUCK")
  IF \E i \in DOMAIN kids : kids[i] \in {C("STUCK"), C("DIVERGE")} THEN (IF \E i \in DOMAIN kids : kids[i] = C("DIVERGE") THEN C("DIVERGE") ELSE C("STUCK"))
  ELSE IF v.k = "pE" THEN (IF NormE(kids[1]) = NONE THEN C("STUCK") ELSE NormE(kids[1]))
  ELSE IF v.k = "pA" THEN (IF Norm(p, kids[1], fuel) = NONE THEN C("STUCK") ELSE Norm(p, kids[1], fuel))
  ELSE [v EXCEPT !.a = kids]
NormSem(p, x) == Norm(p, x, 6)

Queries == { C("Foo"), C("Bar"), C("Baz"), V(C("Foo")), V(C("Bar")), V(V(C("Foo"))), V(C("Baz")) }
Ys == { C("Foo"), C("Bar"), C("Baz"), V(C("Foo")), V(C("Bar")) }

VARIABLES p, x
Init == p \in Programs /\ x \in Queries
Next == UNCHANGED <<p, x>>
Spec == Init /\ [][Next]_<<p, x>>
\* the value of an applicable closed-valued impl is returned unchanged; no impl => no value
Direct == \A im \in p : (im.head = HeadOf(x) /\ im.val \in {C("Foo"), C("Bar"), V(C("Foo"))}) => NormSem(p, x) = im.val
NoImplNoValue == (\A im \in p : im.head # HeadOf(x)) => NormSem(p, x) = NONE
Replay == PrintT(<<"REPLAY", ToJson([impls |-> p, x |-> x, norm |-> NormSem(p, x)])>>)
=============================================================================
