------------------------------ MODULE SubtypeMC ------------------------------
(* C29: subtyping follows declared variance.  Types are built from scalars, & / &mut,         *)
(* fn pointers without binders, pairs and ADTs with one parameter of declared variance         *)
(* (lifetime or type).  Lifetimes: 'static, two placeholders 'a 'b and one unknown 'x.         *)
(* Sub(A, B) is the set of outlives requirements `l1: l2` dictated by the variance of each     *)
(* position (chalk's convention: relating la with lb at a covariant position requires lb: la,  *)
(* at a contravariant one la: lb, at an invariant one both; the lifetime of a reference is a   *)
(* contravariant position, its referent covariant (&) or invariant (&mut); fn parameters are   *)
(* contravariant, the result covariant), or FAIL when the structures differ.                   *)
(* The real solvers must answer `Subtype(A, B)` with No solution exactly when Sub = FAIL and   *)
(* otherwise with constraints equivalent to Sub(A, B).                                         *)
EXTENDS Terms, Json

CONSTANTS Stride, Offset
Co == "co"  Contra == "contra"  Inv == "inv"
XForm(v, w) == IF v = Inv \/ w = Inv THEN Inv ELSE IF w = Co THEN v ELSE IF v = Co THEN Contra ELSE Co

\* ADT ids: 1 CoL<'l>  2 ContraL<'l>  3 InvL<'l>  4 CoT<T>  5 ContraT<T>  6 InvT<T>
AdtVar(n) == CASE n \in {1, 4} -> Co [] n \in {2, 5} -> Contra [] OTHER -> Inv

LS == Atom("lstatic")  LA == T("lph", 1, 0, <<>>)  LB == T("lph", 1, 1, <<>>)  LX == T("linfer", 0, 0, <<>>)
Lts == {LS, LA, LB, LX}
U32 == T("scalar", 4, 0, <<>>)  I32 == T("scalar", 3, 0, <<>>)
Base == {U32, I32}
L1 == { T("ref", 0, mu, <<l, b>>) : mu \in {0, 1}, l \in Lts, b \in {U32} } \cup { T("adt", n, 0, <<l>>) : n \in 1 .. 3, l \in Lts }
Fns(xs, ys) == { T("fnptr", 0, 0, <<x, y>>) : x \in xs, y \in ys }
L2 == { T("ref", 0, mu, <<l, t>>) : mu \in {0, 1}, l \in {LA, LS}, t \in L1 }
      \cup Fns(L1, {U32}) \cup Fns({U32}, L1)
      \cup { T("tuple", 0, 0, <<x, y>>) : x \in L1, y \in {U32, T("ref", 0, 0, <<LB, U32>>)} }
      \cup { T("adt", n, 0, <<t>>) : n \in 4 .. 6, t \in L1 }
Types == Base \cup L1 \cup L2

RECURSIVE Skel(_)
Skel(t) == IF IsLt(t) THEN Atom("lerased") ELSE [t EXCEPT !.a = [i \in DOMAIN t.a |-> Skel(t.a[i])]]

SFail == {<<Atom("FAIL"), Atom("FAIL")>>}
Join(s1, s2) == IF s1 = SFail \/ s2 = SFail THEN SFail ELSE s1 \cup s2
LtRel(v, la, lb) == IF la = lb THEN {} ELSE
                    (IF v \in {Inv, Contra} THEN {<<la, lb>>} ELSE {}) \cup (IF v \in {Inv, Co} THEN {<<lb, la>>} ELSE {})
RECURSIVE Rel(_, _, _)
Rel(v, a, b) ==
  IF IsLt(a) THEN LtRel(v, a, b)
  ELSE IF a.k # b.k \/ Len(a.a) # Len(b.a) THEN SFail
  ELSE CASE a.k = "scalar" -> IF a.n = b.n THEN {} ELSE SFail
         [] a.k = "ref" -> IF a.m # b.m THEN SFail
                           ELSE Join(Rel(XForm(v, Contra), a.a[1], b.a[1]), Rel(XForm(v, IF a.m = 0 THEN Co ELSE Inv), a.a[2], b.a[2]))
         [] a.k = "fnptr" -> Join(Rel(XForm(v, Contra), a.a[1], b.a[1]), Rel(v, a.a[2], b.a[2]))
         [] a.k = "tuple" -> Join(Rel(XForm(v, Co), a.a[1], b.a[1]), Rel(XForm(v, Co), a.a[2], b.a[2]))
         [] a.k = "adt" -> IF a.n # b.n THEN SFail ELSE Rel(XForm(v, AdtVar(a.n)), a.a[1], b.a[1])
         [] OTHER -> SFail
Sub(a, b) == Rel(Co, a, b)

VARIABLES a, b
RECURSIVE THash(_)
THash(x) == LET kk == CASE x.k = "adt" -> 1 [] x.k = "ref" -> 2 [] x.k = "tuple" -> 3 [] x.k = "fnptr" -> 5 [] x.k = "lph" -> 7
                       [] x.k = "lstatic" -> 11 [] x.k = "linfer" -> 13 [] OTHER -> 17
                RECURSIVE H(_)
                H(i) == IF i = 0 THEN 0 ELSE (THash(x.a[i]) * (i + 2) + 7 * H(i - 1)) % 1000003
            IN (kk + 3 * x.n + 5 * x.m + 101 * H(Len(x.a))) % 1000003
Chosen(x, y) == Stride = 1 \/ (THash(x) * 31 + THash(y)) % Stride = Offset
\* at most one unknown lifetime occurrence pair keeps the comparison of requirements exact
Init == /\ a \in Types
        /\ b \in { t \in Types : Skel(t) = Skel(a) \/ (t \in Base \cup L1 /\ a \in Base \cup L1) }
        /\ Chosen(a, b)
Next == UNCHANGED <<a, b>>
Spec == Init /\ [][Next]_<<a, b>>

\* sanity of the meaning: reflexive, and invariant positions are symmetric
Reflexive == Sub(a, a) = {}
AntiSym == (Sub(a, b) # SFail) <=> (Sub(b, a) # SFail)
Replay == PrintT(<<"REPLAY", ToJson([a |-> a, b |-> b, fail |-> Sub(a, b) = SFail,
                                     req |-> IF Sub(a, b) = SFail THEN {} ELSE { [x |-> p[1], y |-> p[2]] : p \in Sub(a, b) }])>>)
=============================================================================
