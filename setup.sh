#!/bin/sh
# Build the conformance harness offline against /repo's working tree (hooks on).
set -e
cd "$(dirname "$0")"
mkdir -p evidence work
[ -f harness/Cargo.lock ] || cp /repo/Cargo.lock harness/Cargo.lock
cd harness && CARGO_NET_OFFLINE=true cargo build --release --offline 2>&1 | tail -3
