#!/bin/sh
# Build the conformance harness offline against /repo's working tree (hooks on) and
# check that the TLA+ tool chain parses the specifications.
set -e
cd "$(dirname "$0")"
mkdir -p evidence work replay
[ -f harness/Cargo.lock ] || cp /repo/Cargo.lock harness/Cargo.lock
(cd harness && CARGO_NET_OFFLINE=true cargo build --release --offline 2>&1 | tail -3)
test -x harness/target/release/cvh
for m in SLG SLGGround SLGGroundMC SLGTrace InPlace InPlaceMC InPlaceTrace Coherence Orphan Terms Unify InferMC CanonMC Guidance SubtypeMC MiniMC BuiltinMC AssocMC WfMC LogDb LoweringMC DisplayMC AutoMC ImplMC ApproxMC GroundMeaning RecGround RecGroundMC; do
  (cd spec && java -cp /opt/veriftools/tla/tla2tools.jar:/opt/veriftools/tla/CommunityModules-deps.jar tla2sany.SANY $m.tla >/dev/null 2>&1) || { echo "SANY failed on $m"; exit 1; }
done
echo "setup ok"
